"""
Baton-passing deterministic thread scheduler.

Real threading.Thread objects run the code under test, but only the thread holding the baton
executes; at every scheduling point (a `line` trace event inside the traced source files, a
contended SimRLock.acquire, thread exit) control returns to the scheduler, which picks the next
runnable thread from an explicit schedule or from the run's 'sched' PRNG stream.  Which thread
runs is therefore never decided by the OS or the GIL.
"""
from __future__ import annotations

import sys
import threading

from .kernel import HarnessError


class Deadlock(Exception):
    pass


class StepLimit(Exception):
    pass


class _T:
    __slots__ = ('tid', 'thread', 'sem', 'done', 'blocked_on', 'exc', 'result', 'steps')

    def __init__(self, tid):
        self.tid = tid
        self.thread = None
        self.sem = threading.Semaphore(0)
        self.done = False
        self.blocked_on = None
        self.exc = None
        self.result = None
        self.steps = 0


class Scheduler:
    def __init__(self, rng, traced_files, switch_p=0.3, schedule=None, max_steps=20000, opcode_files=()):
        self.rng = rng
        self.traced = tuple(traced_files)
        self.opcode_files = tuple(opcode_files)   # pre-emption at every bytecode (not only every line) in these files
        self.switch_p = switch_p
        self.schedule_in = list(schedule) if schedule is not None else None
        self.schedule_out = []
        self.max_steps = max_steps
        self.threads = []
        self.ctl = threading.Semaphore(0)
        self.current = None
        self.steps = 0
        self.switches = 0
        self.switches_in_region = 0
        self.region_probe = None   # fn(frame) -> bool : is this scheduling point inside a critical region
        self.abort = False
        self._local = threading.local()

    # -- thread side
    def _trace(self, frame, event, arg):
        if frame.f_code.co_filename.endswith(self.traced):
            if self.opcode_files and frame.f_code.co_filename.endswith(self.opcode_files):
                frame.f_trace_opcodes = True
            return self._ltrace
        return None

    def _ltrace(self, frame, event, arg):
        if event == 'line' or event == 'opcode':
            t = self._local.t
            t.steps += 1
            if self.region_probe is not None and self.region_probe(frame):
                self._local.in_region = True
            else:
                self._local.in_region = False
            self._yield(t)
        return self._ltrace

    def _yield(self, t):
        """Give the baton back to the scheduler and wait to be chosen again."""
        self.ctl.release()
        t.sem.acquire()
        if self.abort:
            # the run is being torn down: this thread unwinds alone (threads are released one at a time, see run()),
            # with tracing off - CPython 3.12's tracing machinery is not robust against several threads unwinding
            # through opcode-traced frames at once (a SIGSEGV was seen in a step-capped 8-thread run)
            sys.settrace(None)
            raise SystemExit

    def _boot(self, t, fn):
        self._local.t = t
        self._local.in_region = False
        t.sem.acquire()          # wait for the first baton
        if self.abort:
            t.done = True
            self.ctl.release()
            return
        sys.settrace(self._trace)
        try:
            t.result = fn()
        except SystemExit:
            pass
        except BaseException as e:  # noqa
            t.exc = e
        finally:
            sys.settrace(None)
            t.done = True
            self.ctl.release()

    def spawn(self, fn):
        t = _T(len(self.threads))
        t.thread = threading.Thread(target=self._boot, args=(t, fn), daemon=True)
        self.threads.append(t)
        return t

    # -- lock support
    def make_lock(self):
        return SimRLock(self)

    # -- scheduler side
    def runnable(self):
        return [t for t in self.threads if not t.done and (t.blocked_on is None or t.blocked_on.owner is None
                                                           or t.blocked_on.owner is t)]

    def run(self):
        for t in self.threads:
            t.thread.start()
        try:
            while True:
                live = [t for t in self.threads if not t.done]
                if not live:
                    break
                run = self.runnable()
                if not run:
                    raise Deadlock(f"no runnable thread; {len(live)} unfinished")
                if self.steps >= self.max_steps:
                    raise StepLimit(f"{self.steps} scheduling steps without completion")
                nxt = self._pick(run)
                if self.current is not None and nxt is not self.current and not self.current.done:
                    self.switches += 1
                self.current = nxt
                self.schedule_out.append(nxt.tid)
                self.steps += 1
                nxt.sem.release()
                self.ctl.acquire()
        finally:
            # Threads that are still parked when a run is cut short (step cap, deadlock) stay parked for good: they are
            # daemon threads, and every run executes in a process that exits right after it.  Waking them to unwind
            # (SystemExit through frames traced at bytecode granularity) crashed CPython 3.12.1 with SIGSEGV in a
            # step-capped 8-thread run - twice in about 80 000 thread runs - so nothing is unwound any more.
            self.abort = True
            for t in self.threads:
                if t.done:
                    t.thread.join(timeout=5)

    def _pick(self, run):
        i = len(self.schedule_out)
        if self.schedule_in is not None:
            if i < len(self.schedule_in):
                want = self.schedule_in[i]
                for t in run:
                    if t.tid == want:
                        return t
            # exhausted / not runnable: run the current thread on, else the lowest id
            if self.current in run:
                return self.current
            return run[0]
        if self.current in run and len(run) > 1:
            if self.rng.random() >= self.switch_p:
                return self.current
            others = [t for t in run if t is not self.current]
            return others[self.rng.randrange(len(others))]
        if self.current in run:
            return self.current
        return run[self.rng.randrange(len(run))]


class SimRLock:
    """Re-entrant lock whose contended acquire is a scheduling point."""

    def __init__(self, sched: Scheduler):
        self.sched = sched
        self.owner = None
        self.count = 0
        self.contended = 0
        self.acquisitions = 0

    def acquire(self, blocking=True, timeout=-1):
        t = getattr(self.sched._local, 't', None)
        if t is None:                      # used outside simulated threads: plain re-entrant behaviour
            self.count += 1
            return True
        while self.owner is not None and self.owner is not t:
            if not blocking:
                return False
            self.contended += 1
            t.blocked_on = self
            self.sched._yield(t)
        t.blocked_on = None
        self.owner = t
        self.count += 1
        self.acquisitions += 1
        return True

    def release(self):
        t = getattr(self.sched._local, 't', None)
        if t is None:
            self.count -= 1
            return
        if self.owner is not t:
            raise RuntimeError("cannot release un-acquired lock")
        self.count -= 1
        if self.count == 0:
            self.owner = None

    __enter__ = acquire

    def __exit__(self, *a):
        self.release()
