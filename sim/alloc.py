"""
The simulated allocator: `sim_id` stands in for the builtin `id` inside pane's modules.

CPython promises only that id(x) is constant during x's lifetime and unique among simultaneously
live objects.  sim_id gives exactly that and nothing more: an address is handed to a new object
only after a *proof* that its previous owner is dead (weakref callback, or refcount accounting
for simulator-owned tuple/dict literals).  Whether a freed address is re-used is decided by the
run's 'alloc' PRNG stream.
"""
from __future__ import annotations

import builtins
import sys
import weakref

_real_id = builtins.id


class _Entry:
    __slots__ = ('addr', 'ref', 'strong', 'rid')

    def __init__(self, addr, rid):
        self.addr = addr
        self.rid = rid
        self.ref = None
        self.strong = None


class SimAlloc:
    def __init__(self, rng, p_recycle, trace=None, counters=None):
        self.rng = rng
        self.p = p_recycle
        self.table = {}       # real id -> _Entry (only for objects believed live)
        self.free = []        # freed simulated addresses, most recently freed last
        self.next_addr = 0x7000_0000_0000
        self.calls = 0
        self.counters = counters if counters is not None else {}
        self.decisions = []   # ('fresh'|'recycle', addr)
        self.recycled_addrs = set()   # addresses that have had more than one owner
        self.owners = {}      # addr -> number of owners so far
        self.base_count = None
        self.active = True

    def count(self, k, n=1):
        self.counters[k] = self.counters.get(k, 0) + n

    # ---- the seam
    def sim_id(self, obj):
        self.calls += 1
        rid = _real_id(obj)
        e = self.table.get(rid)
        if e is not None:
            if e.ref is not None:
                if e.ref() is obj:
                    return e.addr
            elif e.strong is obj:
                return e.addr
            # stale entry for a dead object whose callback has not run (cannot normally happen)
            self._free_entry(e)
        addr = self._alloc()
        e = _Entry(addr, rid)
        try:
            e.ref = weakref.ref(obj, self._make_cb(e))
        except TypeError:
            e.strong = obj      # pinned (or a simulator-owned literal, released by release())
            self.count('pinned_not_weakrefable')
        self.table[rid] = e
        return addr

    def _make_cb(self, e):
        def cb(_ref, e=e, self=self):
            if self.table.get(e.rid) is e:
                self._free_entry(e)
                self.count('type_died')
        return cb

    def _free_entry(self, e):
        if self.table.get(e.rid) is e:
            del self.table[e.rid]
        e.strong = None
        if self.active:
            self.free.append(e.addr)

    def _alloc(self):
        if self.free and self.p > 0 and (self.p >= 1 or self.rng.random() < self.p):
            # size-class free lists are LIFO: prefer the most recently freed address
            if self.rng.random() < 0.8:
                addr = self.free.pop()
            else:
                addr = self.free.pop(self.rng.randrange(len(self.free)))
            self.decisions.append(('recycle', addr))
            self.count('address_recycled')
            self.recycled_addrs.add(addr)
        else:
            addr = self.next_addr
            self.next_addr += 16
            self.decisions.append(('fresh', addr))
        self.owners[addr] = self.owners.get(addr, 0) + 1
        return addr

    def known(self, obj):
        e = self.table.get(_real_id(obj))
        if e is None:
            return None
        if (e.ref is not None and e.ref() is obj) or e.strong is obj:
            return e
        return None

    # ---- refcount accounting for simulator-owned, non-weak-referenceable literals
    def _count(self, obj):
        return sys.getrefcount(obj)

    def measure(self, holder, key):
        """
        Pop holder[key] and return (obj, refcount seen from here).  Used both for calibration and
        for real drops so that the two measurements go through the identical call chain.
        """
        obj = holder.pop(key)
        return obj, self._count(obj)

    def calibrate(self):
        probe = (object(), object())
        e = _Entry(0, _real_id(probe))
        e.strong = probe
        holder = {'k': probe}
        del probe
        obj, n = self.measure(holder, 'k')
        self.base_count = n        # = refs when only (holder-popped local, entry.strong) hold it
        e.strong = None
        del obj

    def release_literal(self, holder, key):
        """
        The simulator drops its (only) reference holder[key] to a tuple/dict literal.  If nobody
        else holds the literal it dies now: its address (if it ever had one) returns to the pool,
        and nested literals are released the same way.  Returns True if it died.
        """
        obj, n = self.measure(holder, key)
        e = self.known(obj)
        base = self.base_count - (0 if e is not None and e.strong is obj else 1)
        if n > base:
            self.count('literal_retained_by_pane')
            return False          # pane (a cached converter) retains it: immortal while cached
        kids = {}
        items = obj.values() if isinstance(obj, dict) else obj
        for i, c in enumerate(items):
            if isinstance(c, (tuple, dict)):
                kids[i] = c
        if e is not None:
            self._free_entry(e)
            self.count('type_died')
            self.count('literal_died_refcount')
        c = None
        del items, obj
        for i in list(kids):
            self.release_literal(kids, i)
        return True
