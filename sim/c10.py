"""
C10 - results are independent of call history (memoisation is transparent).

Seeded histories of define / build / convert / inline / lookup / serialise / keep / subscript /
drop / gc / typing-cleanup / arm-fault operations run against the real pane code, with the object
allocator (`id`), the garbage collector, typing's caches, the memo mode (unbounded / LRU k) and
handler faults behind simulator-owned seams.  Oracle: the same call with memoisation bypassed.
"""
from __future__ import annotations

import gc
import sys
import typing

from . import typegen as tg
from .alloc import SimAlloc
from .fingerprint import fp_exception, fp_value, mask, order_free
from .kernel import HarnessError, Streams, Trace, canon, h64

PROP = 'C10'
RUN_CLASSES = ('norecycle', 'recycle', 'lru', 'threads', 'long', 'threads_wide')
SHRINK_BUDGET = 700

C10_KINDS = ['odict', 'tvar', 'tagged', 'list', 'set', 'vtuple', 'tuple', 'dict', 'tlist', 'tset', 'tseq', 'tvtuple', 'ttuple', 'tdict', 'tmap',
             'opt', 'union', 'lit', 'ann', 'tl', 'dl', 'cls', 'enum', 'gen', 'vol', 'range', 'frozenset']
C10_SCALARS = ['int', 'float', 'str', 'bool', 'none', 'Fraction', 'Decimal', 'date', 'datetime', 'time',
               'PurePath', 'Pattern', 'bytes', 'complex', 'any', 'int', 'str', 'float', 'any', 'any',
               'IdInt', 'IdFloat', 'IdDecimal', 'IdFraction']

HANDLER_SPECS = [None, None, None, ['one', 'dbl_int'], ['one', 'upper_str'], ['seq', 'dbl_int', 'upper_str'],
                 ['seq', 'upper_str', 'dbl_int'], ['seq', 'defer_ni', 'dbl_int'], ['seq', 'defer_nie', 'neg_float'],
                 ['map', 'int'], ['map', 'str', 'float'], ['one', 'neg_float'], ['tup', 'dbl_int'],
                 ['one', 'inc_int'], ['one', 'tag_str'], ['seq', 'inc_int', 'dbl_int'], ['seq', 'tag_str', 'inc_int'],
                 ['one', 'list_int'], ['one', 'list_int'], ['seq', 'list_int', 'dict_str_int'], ['one', 'dict_str_int']]
CLASS_CUSTOMS = [None, None, ['one', 'dbl_int'], ['one', 'upper_str'], ['seq', 'neg_float', 'dbl_int'],
                 ['one', 'inc_int'], ['one', 'tag_str'], ['seq', 'inc_int', 'upper_str'], ['one', 'list_int']]
FAULTY_SPECS = [['one', 'faulty_dbl_int'], ['seq', 'faulty_upper_str', 'dbl_int'], ['seq', 'defer_ni', 'faulty_dbl_int']]
PANE_MODULES = ('pane.convert', 'pane.converters', 'pane.classes', 'pane.types', 'pane.util', 'pane.io',
                'pane.annotations', 'pane.field', 'pane.errors', 'pane.addons.numpy')
MEMO_MODULES = ('pane.convert', 'pane.converters', 'pane.classes')


# ---------------------------------------------------------------------------------------------
# seams

class Seams:
    """Installs / removes every run-time seam.  Nothing in /repo is edited."""

    def __init__(self):
        import pane
        import pane.classes
        import pane.converters
        import pane.types  # noqa
        self.pane = pane
        self.mods = {m: sys.modules[m] for m in PANE_MODULES if m in sys.modules}
        self.convert_mod = sys.modules['pane.convert']
        self.orig_mc = self.convert_mod.make_converter
        self.undecorated = getattr(self.orig_mc, '__wrapped__', None) or getattr(self.orig_mc, 'inner_f', None)
        if self.undecorated is None:
            raise HarnessError("memo seam not found: pane.convert.make_converter has no __wrapped__/inner_f")
        self.global_handlers = list(getattr(self.convert_mod, '_GLOBAL_HANDLERS', []))
        self.current_mc = self.orig_mc

    def install_id(self, sim_id):
        for m in self.mods.values():
            m.__dict__['id'] = sim_id

    def remove_id(self):
        for m in self.mods.values():
            m.__dict__.pop('id', None)

    def bind_mc(self, fn):
        for name in MEMO_MODULES:
            self.mods[name].__dict__['make_converter'] = fn
        self.current_mc = fn

    def restore(self):
        self.bind_mc(self.orig_mc)
        self.remove_id()
        if hasattr(self.convert_mod, '_GLOBAL_HANDLERS'):
            self.convert_mod._GLOBAL_HANDLERS[:] = self.global_handlers

    def make_lru(self, k):
        """
        The shipped memo re-created with a small bound (the configuration the 'TODO support maxsize' comment
        announces).  It is built by calling the memo's own class with the shipped instance's constructor
        arguments - every one of them, read back from the instance - and only `maxsize` changed, so whatever
        the implementation needs to be correct (key function, pinning function, ...) is carried over.  If any
        constructor argument cannot be recovered the LRU configuration is reported unavailable rather than
        being built from a guess.
        """
        import functools
        import inspect
        mc = self.orig_mc
        cls = type(mc)
        if cls.__module__ in ('functools', 'builtins'):
            return None
        try:
            sig = inspect.signature(cls.__init__)
        except (TypeError, ValueError):
            return None
        kwargs = {}
        for name, prm in list(sig.parameters.items())[1:]:
            if prm.kind in (prm.VAR_POSITIONAL, prm.VAR_KEYWORD):
                return None
            if name == 'maxsize':
                kwargs[name] = k
                continue
            for cand in (name, 'inner_' + name, '_' + name):
                if cand in vars(mc):
                    kwargs[name] = getattr(mc, cand)
                    break
            else:
                return None
        if 'maxsize' not in kwargs:
            return None
        kc = cls(**kwargs)
        functools.update_wrapper(kc, self.undecorated)
        return kc

    def clear_memo(self):
        cache = getattr(self.orig_mc, 'cache', None)
        if isinstance(cache, dict):
            cache.clear()
            root = getattr(self.orig_mc, '_root', None)
            if isinstance(root, list):
                root[:] = [root, root, None, None]
                self.orig_mc.full = (self.orig_mc.maxsize == 0)
        elif hasattr(self.orig_mc, 'cache_clear'):
            self.orig_mc.cache_clear()
        else:
            raise HarnessError("memo seam not found: cannot empty pane's converter memo between runs")
        sub = getattr(sys.modules['pane.classes'], '_make_subclass', None)
        if sub is not None and hasattr(sub, 'cache_clear'):
            sub.cache_clear()


_SEAMS = None


def seams() -> Seams:
    global _SEAMS
    if _SEAMS is None:
        _SEAMS = Seams()
    return _SEAMS


def reset_world():
    s = seams()
    s.restore()
    s.clear_memo()
    for f in typing._cleanups:
        f()
    gc.collect()


# ---------------------------------------------------------------------------------------------
# plan generation

def gen_knobs(rk, cls):
    kn = {
        'p_recycle': 0.0 if cls == 'norecycle' else rk.choice([0.5, 1.0, 1.0]),
        'lru': rk.choice([1, 2, 3, 4, 8]) if cls == 'lru' else None,
        'n_kinds': rk.choice([2, 4, 6, 10, len(C10_KINDS)]),
        'mix': rk.choice(['drop', 'inline', 'handler', 'subscript', 'balanced', 'balanced']),
        'faults': rk.random() < 0.3,
        'valid_p': rk.choice([0.6, 0.8, 0.95]),
        'gc_eager': rk.random() < 0.3,
        'pristine_p': rk.choice([0.0, 0.1, 0.1, 0.3]),
    }
    if cls in ('norecycle', 'recycle') and rk.random() < 0.35:
        kn['lru'] = 'unbounded'      # the cache class's other shipped mode (maxsize=None), re-created from the shipped memo
    kn['hpair'] = None
    if kn['mix'] == 'handler' or rk.random() < 0.25:
        kn['hpair'] = rk.choice([['dbl_int', 'inc_int'], ['inc_int', 'dbl_int'], ['upper_str', 'tag_str'], ['tag_str', 'upper_str']])
    if cls == 'lru':
        kn['p_recycle'] = rk.choice([0.0, 0.0, 1.0])
    return kn


# extra operations appended to every mix: construct, mkdict, mutdict, dropdict
EXTRA_OPS = ['construct', 'mkdict', 'mutdict', 'dropdict', 'resubscript']
EXTRA_WEIGHTS = {'balanced': [4, 2, 2, 1, 3], 'drop': [2, 2, 1, 3, 2], 'inline': [2, 1, 1, 1, 1], 'handler': [5, 5, 5, 2, 1],
                 'subscript': [4, 1, 1, 1, 14]}

MIXES = {
    #            defclass build convert inline lookup serialise keep subscript drop gc tcleanup arm
    'balanced':  [4, 10, 14, 14, 5, 5, 4, 4, 9, 3, 3, 2],
    'drop':      [2, 12, 10, 10, 4, 3, 2, 2, 20, 6, 6, 1],
    'inline':    [2, 4, 6, 40, 3, 3, 2, 2, 4, 2, 3, 1],
    'handler':   [4, 8, 20, 14, 8, 5, 3, 2, 6, 2, 2, 6],
    'subscript': [8, 6, 10, 8, 4, 4, 4, 20, 6, 3, 2, 1],
}
OPNAMES = ['defclass', 'build', 'convert', 'inline', 'lookup', 'serialise', 'keep', 'subscript', 'drop', 'gc',
           'typing_cleanup', 'arm']


DICT_CONVS = {'int': ['DoubleInt', 'IncInt'], 'str': ['UpperStr', 'TagStr'], 'float': ['NegFloat']}


def _dict_entries(ro, knobs):
    if ro.random() < 0.35:
        # a *list* of handler functions the application keeps, passes again and again and edits in place
        pool = list(knobs['hpair']) if knobs.get('hpair') else ['dbl_int', 'inc_int', 'upper_str', 'tag_str', 'neg_float', 'list_int']
        return ['list'] + ro.sample(pool, ro.choice([1, 2]) if len(pool) > 1 else 1)
    tys = ro.sample(['int', 'str', 'float'], ro.choice([1, 1, 2]))
    if knobs.get('hpair'):
        tys = ['int' if 'int' in knobs['hpair'][0] else 'str']
    return [[ty, ro.choice(DICT_CONVS[ty])] for ty in tys]


def resolve(ast, root_asts):
    """Replace ["ref", name] by the referenced root's (resolved) AST."""
    if ast[0] == 'ref':
        return root_asts[ast[1]]
    if ast[0] in ('s', 'cls', 'enum', 'lit', 'tv'):
        return ast
    if ast[0] == 'dl':
        return ['dl', [[n, resolve(a, root_asts)] for (n, a) in ast[1]]]
    if ast[0] == 'ann':
        return ['ann', resolve(ast[1], root_asts), ast[2]]
    if ast[0] == 'gen':
        return ['gen', ast[1]] + [resolve(a, root_asts) for a in ast[2:]]
    if ast[0] == 'gen2':
        return root_asts_resolved_gen2(ast, root_asts)
    if ast[0] == 'tagged':
        return ast[:3] + [resolve(a, root_asts) for a in ast[3:]]
    return [ast[0]] + [resolve(a, root_asts) for a in ast[1:]]


def free_typevars(ast, acc=None):
    """Type-variable names in order of first appearance (the order of __parameters__)."""
    acc = [] if acc is None else acc
    if ast[0] == 'tv':
        if ast[1] not in acc:
            acc.append(ast[1])
    elif ast[0] == 'dl':
        for (_, a) in ast[1]:
            free_typevars(a, acc)
    elif ast[0] == 'ann':
        free_typevars(ast[1], acc)
    elif ast[0] not in ('s', 'cls', 'enum', 'lit', 'ref'):
        for a in ast[{'gen': 2, 'gen2': 2, 'tagged': 3}.get(ast[0], 1):]:
            if isinstance(a, list):
                free_typevars(a, acc)
    return acc


def root_asts_resolved_gen2(ast, root_asts):
    """['gen2', rootname, params...] -> the equivalent fully spelled ['gen', G, ...] expression."""
    base = root_asts[ast[1]]
    free = []
    for a in base[2:]:
        free_typevars(a, free)
    binding = dict(zip(free, [resolve(a, root_asts) for a in ast[2:]]))
    return tg.subst(base, binding)


def _inject_refs(rng, ast, roots, depth=0):
    """With some probability replace a sub-expression by a reference to an existing root."""
    if not roots or ast[0] in ('s', 'cls', 'enum', 'lit', 'tv', 'ref', 'set', 'tset', 'frozenset', 'ann', 'range', 'gen', 'gen2', 'tagged'):
        return ast
    if ast[0] == 'dl':
        return ['dl', [[n, _inject_refs(rng, a, roots, depth + 1)] for (n, a) in ast[1]]]
    out = [ast[0]]
    for a in ast[1:]:
        if rng.random() < 0.25 and not (ast[0] in ('dict', 'tdict', 'tmap') and a is ast[1]):
            cands = [n for (n, r) in roots.items() if r[0] not in ('tl', 'dl')]
            if cands:
                out.append(['ref', rng.choice(cands)])
                continue
        out.append(_inject_refs(rng, a, roots, depth + 1))
    return out


def gen_plan(seed: int, cls: str) -> dict:
    if cls in ('threads', 'threads_wide'):
        return gen_plan_threads(seed, wide=(cls == 'threads_wide'))
    st = Streams(seed)
    rk, ro = st.rng('knobs'), st.rng('ops')
    knobs = gen_knobs(rk, 'recycle' if cls == 'long' else cls)
    if cls == 'long':
        knobs['lru'] = rk.choice([None, None, 2, 4, 16])
    kinds = rk.sample(C10_KINDS, knobs['n_kinds'])
    tg._p()
    sym = tg.World()            # symbolic world: specs only
    roots = {}                  # name -> resolved AST
    insts = {}                  # name -> root name
    ops = []
    nroot = ninst = ncls = 0
    nops = ro.choice([4, 8, 12, 16, 24, 32, 40]) if cls != 'long' else ro.choice([60, 80, 120, 160])
    weights = MIXES[knobs['mix']] + EXTRA_WEIGHTS[knobs['mix']]
    opnames = OPNAMES + EXTRA_OPS
    hdicts = {}
    ndict = 0
    partials = {}
    class_customs = CLASS_CUSTOMS if knobs['mix'] == 'handler' else [None, None, None] + CLASS_CUSTOMS
    hspecs = list(HANDLER_SPECS)
    if knobs.get('hpair'):
        # a small pool of two handlers that claim the same type differently, used at every level
        # (call-level, class-level, nested class): collisions between handler *roles* become likely
        (h, k) = knobs['hpair']
        hspecs = [None, ['one', h], ['one', k], ['seq', h, k], ['seq', k, h], ['one', h], ['one', k]]
        class_customs = [None, ['one', h], ['one', k], ['one', h], ['one', k], ['seq', k, h]]
    if knobs['faults']:
        hspecs += FAULTY_SPECS[:1] if knobs.get('hpair') else FAULTY_SPECS

    def probe(ast):
        return tg.enc(tg.sample_value(ast, sym, ro, valid_p=knobs['valid_p']))

    def pick_custom():
        if hdicts and ro.random() < 0.35:
            return ['dictref', ro.choice(sorted(hdicts))]
        return ro.choice(hspecs)

    prologue = ['defclass', 'defclass'] if knobs.get('hpair') else (['defenum'] if ro.random() < 0.4 else [])
    while len(ops) < nops:
        name = prologue.pop(0) if prologue else ro.choices(opnames, weights)[0]
        if name in ('defclass', 'defenum'):
            if ncls >= (5 if cls != 'long' else 9):
                continue
            if name == 'defenum' or (ro.random() < 0.25 and not knobs.get('hpair')):
                spec = tg.gen_enum_spec(ro, f'E{ncls}')
                sym.enums[spec['name']] = True
                sym.enum_specs[spec['name']] = spec
                ops.append({'op': 'defenum', 'spec': spec})
                if ro.random() < 0.7:
                    rname = f'r{nroot}'
                    nroot += 1
                    roots[rname] = ro.choice([['enum', spec['name']], ['enum', spec['name']], ['list', ['enum', spec['name']]],
                                              ['union', ['enum', spec['name']], ['s', 'float']]])
                    roots[rname] = tg.normalise_unions(roots[rname])
                    ops.append({'op': 'build', 'name': rname, 't': roots[rname]})
            else:
                spec = tg.gen_class_spec(ro, sym, f'C{ncls}', [k for k in kinds if k not in ('tl', 'dl')],
                                         C10_SCALARS, custom_specs=class_customs,
                                         nest_p=0.8 if knobs.get('hpair') else 0.15,
                                         generic_p=0.1 if knobs.get('hpair') else 0.25,
                                         tag_p=0.5 if 'tagged' in kinds else 0.0)
                if ro.random() < 0.25 and not spec.get('tag') and 'tuple' not in ((spec.get('opts') or {}).get('in_format') or []):
                    # an untyped payload: its members are (de)serialised by converters inferred from the run-time values
                    spec['fields'].append({'n': 'payload', 't': ro.choice([['dict', ['s', 'str'], ['s', 'any']], ['list', ['s', 'any']],
                                                                             ['s', 'any']]), 'd': None, 'kw': True})
                if knobs.get('hpair') and spec['fields'] and not spec.get('tv') and not spec.get('base'):
                    f0 = spec['fields'][0]
                    f0['t'] = ['s', 'int' if 'int' in knobs['hpair'][0] else 'str']
                    f0.pop('d', None)
                    f0.pop('df', None)
                    if any(('d' in f or 'df' in f) for f in spec['fields'][1:]) is False:
                        pass
                sym.classes[spec['name']] = True
                sym.class_specs[spec['name']] = spec
                ops.append({'op': 'defclass', 'spec': spec})
                if not spec.get('tv') and ro.random() < 0.7:
                    rname = f'r{nroot}'
                    nroot += 1
                    roots[rname] = ['cls', spec['name']]
                    ops.append({'op': 'build', 'name': rname, 't': ['cls', spec['name']]})
            ncls += 1
        elif name == 'build':
            ast = tg.gen_type(ro, sym, kinds, C10_SCALARS, max_depth=3)
            ast = tg.normalise_unions(_inject_refs(ro, ast, roots))
            rname = f'r{nroot}'
            nroot += 1
            roots[rname] = resolve(ast, roots)
            ops.append({'op': 'build', 'name': rname, 't': ast})
        elif name == 'convert':
            if not roots:
                continue
            r = ro.choice(sorted(roots))
            ops.append({'op': 'convert', 'root': r, 'data': probe(roots[r]), 'custom': pick_custom()})
        elif name == 'inline':
            ast = tg.gen_type(ro, sym, kinds, C10_SCALARS, max_depth=2)
            ast = tg.normalise_unions(_inject_refs(ro, ast, roots))
            ops.append({'op': 'inline', 't': ast, 'data': probe(resolve(ast, roots)), 'custom': pick_custom()})
        elif name == 'lookup':
            if not roots:
                continue
            ops.append({'op': 'lookup', 'root': ro.choice(sorted(roots)), 'custom': pick_custom()})
        elif name == 'keep':
            if not roots:
                continue
            r = ro.choice(sorted(roots))
            iname = f'i{ninst}'
            ninst += 1
            insts[iname] = r
            ops.append({'op': 'keep', 'as': iname, 'root': r, 'data': tg.enc(tg.sample_value(roots[r], sym, ro, valid_p=1.0)),
                        'custom': None})
        elif name == 'serialise':
            if not insts:
                continue
            i = ro.choice(sorted(insts))
            ops.append({'op': 'serialise', 'inst': i, 'root': insts[i], 'infer': ro.random() < 0.4,
                        'roundtrip': ro.random() < 0.4, 'custom': ro.choice(hspecs)})
        elif name == 'subscript':
            gens = [n for (n, s) in sym.class_specs.items() if s.get('tv')]
            if not gens:
                continue
            g = ro.choice(gens)
            ntv = len(sym.class_specs[g]['tv'])
            params = []
            for _ in range(ntv):
                r = ro.random()
                if r < 0.45:
                    members = ro.sample([['s', 'int'], ['s', 'float'], ['s', 'str'], ['s', 'bool'], ['s', 'none']], 2)
                    params.append(['runion'] + members)
                elif r < 0.6:
                    params.append(['runion', ['s', ro.choice(['int', 'float', 'str'])], ['s', 'none']])
                else:
                    params.append(tg.gen_type(ro, sym, [k for k in kinds if k not in ('tl', 'dl', 'gen')], C10_SCALARS,
                                              depth=1, max_depth=2, top=False))
            if ro.random() < 0.25:
                # the same leftover binding reached through different binding paths: G[list[T]][X] vs G[X];
                # G[T, X][Y] vs G[X, T][Y]
                X = ro.choice([['s', 'int'], ['s', 'str'], ['s', 'float']])
                Y = ro.choice([['s', 'str'], ['s', 'int'], ['s', 'bool']])
                seq = []
                if ntv == 1:
                    seq = [(['gen', g, ['list', ['tv', 'T']]], [X]), (['gen', g, X], None)]
                else:
                    seq = [(['gen', g, ['tv', 'T'], X] + [['s', 'int']] * (ntv - 2), [Y]),
                           (['gen', g, X, ['tv', 'T']] + [['s', 'int']] * (ntv - 2), [Y])]
                ro.shuffle(seq)
                for (past, again) in seq:
                    r1 = f'r{nroot}'
                    nroot += 1
                    roots[r1] = past
                    fr1 = []
                    for p_ in past[2:]:
                        free_typevars(p_, fr1)
                    if fr1:
                        partials[r1] = fr1
                    ops.append({'op': 'subscript', 'name': r1, 't': past, 'g': g, 'data': probe(past)})
                    if again is not None and fr1:
                        a2 = ['gen2', r1] + again
                        r2 = f'r{nroot}'
                        nroot += 1
                        roots[r2] = resolve(a2, roots)
                        ops.append({'op': 'subscript', 'name': r2, 't': a2, 'g': g,
                                    'data': tg.enc(tg.sample_value(roots[r2], sym, ro, valid_p=1.0))})
                continue
            tv_union = False
            if ro.random() < 0.3:
                # a union of two bare type variables as a parameter; the reordered spelling follows, and both are
                # completed with the same arguments
                params[0] = ['runion', ['tv', 'T'], ['tv', 'U']]
                tv_union = True
            elif ro.random() < 0.4:
                # partial binding: some parameters stay (or contain) type variables; the result can be subscripted again
                for j in range(ntv):
                    if ro.random() < 0.6:
                        tvn = ro.choice(['T', 'U'])
                        params[j] = ro.choice([['tv', tvn], ['tv', tvn], ['list', ['tv', tvn]], ['opt', ['tv', tvn]]])
            params = [p_ if p_[0] == 'runion' else tg.normalise_unions(p_) for p_ in params]
            ast = ['gen', g] + params
            rname = f'r{nroot}'
            nroot += 1
            roots[rname] = ast
            fr = []
            for p_ in params:
                free_typevars(p_, fr)
            if fr:
                partials[rname] = fr
            ops.append({'op': 'subscript', 'name': rname, 't': ast, 'g': g, 'data': probe(ast)})
            if ntv >= 2 and params[0] != params[1] and ro.random() < 0.4:
                # the same arguments in the other positions: G[A, B] and G[B, A] are different classes
                ast2 = ['gen', g] + list(reversed(params))
                rname = f'r{nroot}'
                nroot += 1
                roots[rname] = ast2
                fr2 = []
                for p_ in ast2[2:]:
                    free_typevars(p_, fr2)
                if fr2:
                    partials[rname] = fr2
                ops.append({'op': 'subscript', 'name': rname, 't': ast2, 'g': g, 'data': probe(ast2)})
            if any(p_[0] == 'runion' for p_ in params) and (tv_union or ro.random() < 0.5):
                # the same parameters spelled in the other order (equal to typing, different to pane)
                params2 = [['runion'] + list(reversed(p_[1:])) if p_[0] == 'runion' else p_ for p_ in params]
                ast2 = ['gen', g] + params2
                first = rname
                rname = f'r{nroot}'
                nroot += 1
                roots[rname] = ast2
                ops.append({'op': 'subscript', 'name': rname, 't': ast2, 'g': g, 'data': probe(ast2)})
                if tv_union:
                    fr2 = []
                    for p_ in params2:
                        free_typevars(p_, fr2)
                    partials[rname] = fr2
                    args = ro.choice([[['s', 'float'], ['s', 'int']], [['s', 'float'], ['s', 'int']], [['s', 'int'], ['s', 'float']],
                                      [['s', 'bool'], ['s', 'int']], [['s', 'complex'], ['s', 'float']]])
                    for base in (first, rname):
                        if base in partials and len(partials[base]) == len(args):
                            a3 = ['gen2', base] + args
                            r3 = f'r{nroot}'
                            nroot += 1
                            roots[r3] = resolve(a3, roots)
                            ops.append({'op': 'subscript', 'name': r3, 't': a3, 'g': g,
                                        'data': tg.enc(tg.sample_value(roots[r3], sym, ro, valid_p=1.0))})
        elif name == 'drop':
            if not roots:
                continue
            r = ro.choice(sorted(roots))
            del roots[r]
            for i in [i for (i, rr) in insts.items() if rr == r]:
                pass   # instances stay: they keep their class alive (part of the lifetime space)
            ops.append({'op': 'drop', 'root': r})
        elif name == 'construct':
            cr = [r for (r, a) in sorted(roots.items()) if a[0] == 'cls' and 'tuple' not in ((sym.class_specs[a[1]].get('opts') or {}).get('in_format') or [])]
            if not cr:
                continue
            r = ro.choice(cr)
            spec = sym.class_specs[roots[r][1]]
            kwargs = {}
            for f in tg.effective_fields(spec, {}, sym):
                if ('d' in f or 'df' in f) and ro.random() < 0.4:
                    continue
                kwargs[f['n']] = tg.enc(tg.sample_value(f['t'], sym, ro, valid_p=knobs['valid_p']))
            ops.append({'op': 'construct', 'root': r, 'kwargs': kwargs})
        elif name == 'resubscript':
            cands = [r for r in sorted(partials) if r in roots]
            if not cands:
                continue
            base = ro.choice(cands)
            args = [ro.choice([['s', 'int'], ['s', 'str'], ['s', 'float'], ['s', 'int'], ['list', ['s', 'int']], ['s', 'bool']])
                    for _ in partials[base]]
            ast = ['gen2', base] + args
            rname = f'r{nroot}'
            nroot += 1
            roots[rname] = resolve(ast, roots)
            ops.append({'op': 'subscript', 'name': rname, 't': ast, 'g': roots[base][1], 'data': probe(roots[rname])})
        elif name == 'mkdict':
            if ndict >= 3:
                continue
            dn = f'h{ndict}'
            ndict += 1
            hdicts[dn] = True
            ops.append({'op': 'mkdict', 'name': dn, 'entries': _dict_entries(ro, knobs)})
        elif name == 'mutdict':
            if not hdicts:
                continue
            ops.append({'op': 'mutdict', 'name': ro.choice(sorted(hdicts)), 'entries': _dict_entries(ro, knobs)})
        elif name == 'dropdict':
            if not hdicts:
                continue
            dn = ro.choice(sorted(hdicts))
            del hdicts[dn]
            ops.append({'op': 'dropdict', 'name': dn})
        elif name == 'gc':
            ops.append({'op': 'gc'})
        elif name == 'typing_cleanup':
            ops.append({'op': 'typing_cleanup'})
        elif name == 'arm':
            if not knobs['faults']:
                continue
            ops.append({'op': 'arm', 'handler': ro.choice(['faulty_dbl_int', 'faulty_upper_str']),
                        'k': ro.choice([1, 1, 2, 3]), 'exc': ro.choice(['RuntimeError', 'KeyError', 'ValueError'])})
    if knobs.get('hpair'):
        extra, nroot = _role_collision_scenario(ro, sym, roots, knobs, hspecs, nroot)
        ops.extend(extra)
    if ro.random() < 0.5:
        extra, ninst = _serialise_history_scenario(ro, sym, roots, ninst)
        ops.extend(extra)
    if ro.random() < 0.35:
        pos = ro.randrange(len(ops) + 1)
        ops[pos:pos] = _literal_temporaries_scenario(ro, sym, knobs, pick_custom)
    if ro.random() < 0.25:
        pos = ro.randrange(len(ops) + 1)
        ops[pos:pos] = _arg_handler_scenario(ro, sym)
    if ro.random() < 0.25 and ndict < 2:
        extra = _dict_snapshot_scenario(ro, sym, ndict)
        ndict += 2
        pos = ro.randrange(len(ops) + 1)
        ops[pos:pos] = extra
    if roots and ro.random() < 0.45:
        ops.extend(_equal_values_scenario(ro, sym, roots, pick_custom))
    if ro.random() < 0.3:
        pos = ro.randrange(len(ops) + 1)
        ops[pos:pos] = _error_content_scenario(ro, sym)
    if ro.random() < 0.25:
        pos = ro.randrange(len(ops) + 1)
        ops[pos:pos] = _shared_condition_scenario(ro, sym)
    if ro.random() < 0.2:
        pos = ro.randrange(len(ops) + 1)
        ops[pos:pos] = _equal_looking_conditions_scenario(ro, sym)
    if ro.random() < 0.2:
        pos = ro.randrange(len(ops) + 1)
        ops[pos:pos] = _same_name_scenario(ro, sym)
    if ro.random() < 0.15:
        extra, nroot = _same_name_enums_scenario(ro, sym, roots, nroot)
        ops.extend(extra)
    if ro.random() < 0.12:
        extra, nroot, ninst = _huge_numbers_scenario(ro, sym, roots, nroot, ninst)
        pos = ro.randrange(len(ops) + 1)
        ops[pos:pos] = extra
    if ro.random() < 0.3 and ndict < 5:
        extra = _handler_identity_scenario(ro, sym, ndict, knobs)
        ndict += 2
        pos = ro.randrange(len(ops) + 1)
        ops[pos:pos] = extra
    if ro.random() < 0.7:
        extra, nroot, ninst = _inferred_serialiser_scenario(ro, sym, roots, nroot, ninst)
        ops.extend(extra)
    if ro.random() < 0.35:
        extra, nroot = _near_miss_scenario(ro, sym, roots, nroot, pick_custom)
        pos = ro.randrange(len(ops) + 1)
        ops[pos:pos] = extra
    if knobs['faults'] and roots:
        # a handler that raises part-way through converter construction, then the same call again, then others
        for _ in range(ro.choice([1, 2])):
            r = ro.choice(sorted(roots))
            hname = ro.choice(['faulty_dbl_int', 'faulty_upper_str'])
            spec = ro.choice([['one', hname], ['seq', 'defer_ni', hname], ['seq', hname, 'inc_int']])
            data = tg.enc(tg.sample_value(roots[r], sym, ro, valid_p=knobs['valid_p']))
            pos = ro.randrange(len(ops) + 1)
            ops[pos:pos] = [{'op': 'arm', 'handler': hname, 'k': ro.choice([1, 1, 2, 3]), 'exc': ro.choice(['RuntimeError', 'KeyError', 'ValueError'])},
                            {'op': 'convert', 'root': r, 'data': data, 'custom': spec},
                            {'op': 'convert', 'root': r, 'data': data, 'custom': spec}]
    # fault: a collection (death of dropped classes, their weakref callbacks, addresses becoming recyclable, typing's
    # alias memo flushed) at an arbitrary instant *inside* a call - between any two lines of pane's code
    rg = st.rng('gc_inside')
    if rg.random() < 0.3:
        knobs['gc_inside'] = True
        knobs['gc_eager'] = False       # what was dropped stays uncollected until a collection is injected
        prev = None
        for op in ops:
            if op['op'] in ('convert', 'inline', 'lookup', 'keep', 'serialise', 'subscript', 'construct') \
                    and rg.random() < (0.9 if prev == 'drop' else 0.4):
                op['gc_at'] = rg.choice([1, 2, 3, 5, 8, 13, 21, 34, 55, 89, 144, 233])
            prev = op['op']
    return {'prop': PROP, 'seed': seed, 'cls': cls, 'knobs': knobs, 'ops': ops}


EQUAL_FAMILIES = [[0, False, 0.0, -0.0], [1, True, 1.0], [2, 2.0], ['1', 1, 1.0], ['', 0, None, []], ['a', 'a ', ' a'],
                  [-1, -2, -1.0], [float('nan'), float('nan'), 'nan', None], [float('inf'), 1e308 * 10, 'inf'], [2**53, 2**53 + 1, 2.0**53],
                  ['1.0', '1.00', 1.0], ['1/2', 0.5, '0.5', '2/4'],
                  [[1], [True], [1.0], (1,)], [{'x': 1}, {'x': True}, {'x': 1.0}], [b'a', 'a', bytearray(b'a')]]


def _equal_values_scenario(ro, sym, roots, pick_custom):
    """
    Values that compare equal (or nearly so) but are different: 1 / True / 1.0, 0 / False / -0.0 ... sent through one
    memoised converter one after another, in a random order: a converter that remembers anything *per value* (a parse
    cache, an interned result) answers the later ones from the first.  Also placed inside the type's own valid shape.
    """
    keyed = [r for (r, a) in sorted(roots.items()) if tg.contains(a, lambda x: x[0] in ('enum', 'lit', 'set', 'tset', 'frozenset', 'dict', 'tdict', 'tmap'))]
    r = ro.choice(keyed) if keyed and ro.random() < 0.7 else ro.choice(sorted(roots))
    fam = list(ro.choice(EQUAL_FAMILIES))
    ro.shuffle(fam)
    custom = pick_custom()
    out = []
    shape = tg.sample_value(roots[r], sym, ro, valid_p=1.0)
    for v in fam:
        data = v
        if isinstance(shape, list) and ro.random() < 0.5:
            data = [v] * max(1, min(len(shape), 2))
        elif isinstance(shape, dict) and shape and ro.random() < 0.5:
            data = {k: v for k in list(shape)[:2]}
        try:
            out.append({'op': 'convert', 'root': r, 'data': tg.enc(data), 'custom': custom})
        except HarnessError:
            pass
    return out


NEAR_MISS_SHAPES = [
    ['list', ['lit', 'a', 'b']], ['tlist', ['lit', 1, 2, 3]], ['list', ['ann', ['s', 'int'], 'Positive']],
    ['vtuple', ['ann', ['s', 'float'], 'range0_10']], ['dict', ['s', 'str'], ['lit', 'x', 'y']],
    ['dict', ['lit', 'k', 'kk'], ['s', 'int']], ['set', ['lit', 'p', 'q']], ['list', ['ann', ['list', ['s', 'int']], 'NonEmpty']],
    ['tuple', ['lit', 'a', 'b'], ['ann', ['s', 'int'], 'NonNegative']], ['opt', ['lit', 'a', 'b']],
    ['list', ['union', ['lit', 'a', 'b'], ['s', 'int']]], ['tl', ['lit', 'u', 'v'], ['ann', ['s', 'int'], 'Negative']],
]


def _near_miss_scenario(ro, sym, roots, nroot, pick_custom):
    """
    One long-lived type object converts valid values first and then values of the *same run-time types* that it must
    reject (a non-member string for a Literal, a negative int for Positive, a list that is too long): a converter that
    specialises itself on what it has seen ("elements of this type pass straight through") accepts them the second
    time.  Ends with a valid value again (a converter that remembers failures).
    """
    out = []
    cons = [r for (r, a) in sorted(roots.items()) if tg.contains(a, lambda x: x[0] in ('lit', 'enum', 'ann'))]
    if cons and ro.random() < 0.5:
        r = ro.choice(cons)
    else:
        r = f'r{nroot}'
        nroot += 1
        roots[r] = ro.choice(NEAR_MISS_SHAPES)
        out.append({'op': 'build', 'name': r, 't': roots[r]})
    custom = pick_custom() if ro.random() < 0.3 else None
    try:
        seq = []
        for near in ro.choice([[0, 1], [0, 0, 1], [0, 1, 0], [0, 1, 1, 0]]):
            for _ in range(8):
                d = tg.sample_value(roots[r], sym, ro, valid_p=1.0, near_p=0.7 if near else 0.0)
                if d not in ([], {}, (), None) or _ == 7:
                    break
            seq.append(d)
        for d in seq:
            out.append({'op': 'convert', 'root': r, 'data': tg.enc(d), 'custom': custom})
    except HarnessError:
        pass
    return out, nroot


def _shared_condition_scenario(ro, sym):
    """
    Condition objects are shared: the application defines `Percent = val_range(0, 10)` once and uses it in many types,
    alone and together with other conditions (`Annotated[int, Percent, Positive]`).  Using it in a combination must not
    change what it means on its own - neither for converters built before nor for those built after.
    """
    num2 = ro.choice(['Positive', 'NonNegative', 'Negative'])
    plain_first = ro.random() < 0.5
    kind = ro.choice(['num', 'num', 'len'])
    if kind == 'num':
        alone, combo = ['ann', ['s', 'int'], 'range0_10'], ['ann', ['s', 'int'], 'range0_10', num2]
        combo_ok, probes = {'Positive': 5, 'NonNegative': 3, 'Negative': -1}[num2], [0, 10, 5, -1, 11]
    else:
        alone, combo = ['ann', ['list', ['s', 'int']], 'len1_3'], ['ann', ['list', ['s', 'int']], 'len1_3', 'Empty']
        combo_ok, probes = [1], [[1], [1, 2, 3], [], [1, 2, 3, 4]]
    out = []
    wrap = ro.choice([None, 'list', 'opt'])
    w = (lambda a: a) if wrap is None else (lambda a: [wrap, a])
    wd = (lambda d: d) if wrap != 'list' else (lambda d: [d])
    if plain_first:
        out.append({'op': 'inline', 't': w(alone), 'data': tg.enc(wd(probes[2] if kind == 'num' else probes[0])), 'custom': None})
    out.append({'op': 'inline', 't': w(combo), 'data': tg.enc(wd(combo_ok)), 'custom': None})
    for d in ro.sample(probes, ro.choice([2, 3])):
        out.append({'op': 'inline', 't': w(alone), 'data': tg.enc(wd(d)), 'custom': None, 'pristine': True})
    return out


def _equal_looking_conditions_scenario(ro, sym):
    """
    Two conditions produced by one user factory (`one_of('a', 'b')`, `one_of('x', 'y')`: same name, same code object,
    different captured values) annotate the same inner type at two points of the history.  `typing` memoises
    `Annotated[T, c]` by the *equality* of its arguments, so whatever pane defines as equality of its annotation
    objects decides whether the second type silently is the first.
    """
    names = ['oneof_ab', 'oneof_xy', 'oneof_ax']
    ro.shuffle(names)
    inner = ro.choice([['s', 'str'], ['s', 'str'], ['opt', ['s', 'str']]])
    wrap = ro.choice([None, None, 'list'])
    out = []
    for (k, cn) in enumerate(names[:ro.choice([2, 3])]):
        ast = ['ann', inner, cn]
        for d in ro.sample(['a', 'b', 'x', 'y'], 2):
            t_, d_ = (ast, d) if wrap is None else ([wrap, ast], [d])
            out.append({'op': 'inline', 't': t_, 'data': tg.enc(d_), 'custom': None, 'pristine': k > 0})
    return out


def _same_name_scenario(ro, sym):
    """
    Different types that share their module and qualified name (user subclasses of int / float / Decimal / Fraction made
    by one factory) used one after another, bare and inside containers: nothing remembered under a *name* or a *repr*
    may carry over from one to the next.
    """
    cases = [('IdInt', 12), ('IdInt', 2.5), ('IdFloat', 2.5), ('IdFloat', 'x'), ('IdDecimal', '1.50'), ('IdDecimal', '12'),
             ('IdFraction', '1/3'), ('IdInt', '12'), ('IdFraction', 5)]
    ro.shuffle(cases)
    out = []
    first = cases[0][0]
    for k, (name, d) in enumerate(cases[:ro.choice([3, 4, 5])]):
        wrap = ro.choice([None, None, 'list', 'opt'])
        ast = ['s', name] if wrap is None else [wrap, ['s', name]]
        data = d if wrap != 'list' else [d]
        out.append({'op': 'inline', 't': ast, 'data': tg.enc(data), 'custom': ro.choice([None, None, ['one', 'defer_ni']]),
                    'pristine': name != first})
    return out


def _same_name_enums_scenario(ro, sym, roots, nroot):
    """Two different enums that carry the same Python name (and module), defined and used one after the other."""
    if 'E90' in sym.enum_specs:
        return [], nroot
    pyname = ro.choice(['Mode', 'Kind'])
    variants = [[['A', 1], ['B', 2]], [['X', 'x'], ['Y', 'y']], [['A', 2], ['B', 1]], [['A', 1], ['X', 'x']]]
    m0, m1 = ro.sample(variants, 2)
    twins = ro.random() < 0.4
    if twins:
        # two enums with EQUAL member values in the same order whose members compare as their values (IntEnum / str
        # mixin) and different Python names: a result must be a member of the enum that was asked for
        m0 = m1 = ro.choice(variants[:2])
    out = []
    names = []
    for (en, members) in (('E90', m0), ('E91', m1)):
        spec = {'name': en, 'members': members, 'pyname': pyname}
        if twins:
            spec['pyname'] = {'E90': 'Priority', 'E91': 'Severity'}[en]
            spec['kind'] = 'int' if isinstance(members[0][1], int) else 'str'
        sym.enums[en] = True
        sym.enum_specs[en] = spec
        out.append({'op': 'defenum', 'spec': spec})
        rname = f'r{nroot}'
        nroot += 1
        roots[rname] = ro.choice([['enum', en], ['list', ['enum', en]]])
        out.append({'op': 'build', 'name': rname, 't': roots[rname]})
        names.append((rname, members))
    for k in range(ro.choice([3, 4, 6])):
        (rname, members) = names[k % 2] if ro.random() < 0.8 else ro.choice(names)
        v = tg.dec(ro.choice(m0 + m1)[1])
        data = v if roots[rname][0] == 'enum' else [v, tg.dec(ro.choice(members)[1])]
        out.append({'op': 'convert', 'root': rname, 'data': tg.enc(data), 'custom': None, 'pristine': True})
    return out, nroot


def _huge_numbers_scenario(ro, sym, roots, nroot, ninst):
    """
    Numbers beyond the interpreter's int <-> str digit limit (4300 digits by default since Python 3.11): a Fraction /
    int built from one is legal, writing it out as text or parsing that many digits is refused.  Interpreter-wide
    knobs like that limit must be the same before and after any conversion.
    """
    out = []
    kind = ro.choice(['Fraction', 'Fraction', 'int'])
    rname = f'r{nroot}'
    nroot += 1
    roots[rname] = ['s', kind]
    out.append({'op': 'build', 'name': rname, 't': roots[rname]})
    iname = f'i{ninst}'
    ninst += 1
    out.append({'op': 'keep', 'as': iname, 'root': rname, 'data': {'pow10': ro.choice([5000, 6000])}})
    out.append({'op': 'serialise', 'inst': iname, 'root': rname, 'infer': ro.random() < 0.3, 'roundtrip': ro.random() < 0.5, 'custom': None})
    digits = {'rep': [ro.choice(['7', '1', '9']), ro.choice([4400, 5000])]}
    for ast in ro.sample([['s', 'Fraction'], ['union', ['s', 'Fraction'], ['s', 'str']], ['s', 'Decimal'], ['s', 'int'],
                          ['list', ['s', 'Fraction']]], ro.choice([2, 3])):
        data = digits if ast[0] != 'list' else [digits]
        out.append({'op': 'inline', 't': tg.normalise_unions(ast), 'data': data, 'custom': None, 'pristine': True})
    return out, nroot, ninst


def _error_content_scenario(ro, sym):
    """
    Failures whose error trees carry captured causes (a bad Fraction / Decimal literal, a failing element deep inside a
    container, a user condition whose predicate raises), one after another through unrelated types: the *content* of
    each error - message, tree, the chain of causes - must be that of the failing call alone.  Every probe is also
    judged against a process that has never failed before.
    """
    history = [(['s', 'Fraction'], 'hunter2'), (['list', ['s', 'Decimal']], ['1.5', 'x']), (['s', 'date'], 'not-a-date'),
               (['dict', ['s', 'str'], ['s', 'Fraction']], {'k': '1/0'}), (['union', ['s', 'int'], ['s', 'Fraction']], 'zz'),
               (['tuple', ['s', 'int'], ['s', 'Pattern']], [1, '(']), (['ann', ['s', 'str'], 'first_upper'], '')]
    probes = [(['opt', ['ann', ['s', 'str'], 'first_upper']], ''), (['union', ['ann', ['s', 'str'], 'first_upper'], ['s', 'int']], ''),
              (['list', ['opt', ['ann', ['s', 'str'], 'first_upper']]], ['Ok', '']), (['opt', ['s', 'Fraction']], '1/0'),
              (['union', ['s', 'Decimal'], ['s', 'int']], 'nope'), (['ann', ['s', 'str'], 'first_upper'], '')]
    out = []
    for (ast, data) in ro.sample(history, ro.choice([1, 2, 3])):
        out.append({'op': 'inline', 't': tg.normalise_unions(ast), 'data': tg.enc(data), 'custom': None})
    for (ast, data) in ro.sample(probes, ro.choice([1, 2])):
        out.append({'op': 'inline', 't': tg.normalise_unions(ast), 'data': tg.enc(data), 'custom': None, 'pristine': True})
    return out


def _handler_identity_scenario(ro, sym, ndict, knobs):
    """
    The application creates a handler object, uses it, drops it; later it creates another handler object (which the
    allocator may place at the same address) that behaves differently.  Whatever pane learnt about the first one -
    that it declines `int`, say - must not be applied to the second.  Two ways for the first to die: its memo entries
    are evicted (bounded memo; a burst of temporaries in between), or it was only ever used in calls that raised.
    """
    a, b = f'h{ndict}', f'h{ndict + 1}'
    out = []
    variant = ro.choice(['evicted', 'evicted', 'raised'])
    if variant == 'raised':
        first, second = 'defer_ni', 'opaque'
        probes = [(['s', 'Opaque'], 'op'), (['list', ['s', 'Opaque']], ['op', 7])]
    else:
        first = ro.choice(['defer_ni', 'defer_ni', 'upper_str', 'neg_float'])
        second = ro.choice(['dbl_int', 'inc_int'])
        probes = [(['s', 'int'], 5), (['list', ['s', 'int']], [1, 2]), (['dict', ['s', 'str'], ['list', ['s', 'int']]], {'a': [1, 2]})]
    out.append({'op': 'mkdict', 'name': a, 'entries': ['obj', first]})
    for (ast, data) in ro.sample(probes, ro.choice([1, 2])):
        out.append({'op': 'inline', 't': ast, 'data': tg.enc(data), 'custom': ['dictref', a]})
    out.append({'op': 'dropdict', 'name': a})
    if variant == 'evicted':
        # push the first handler's entries out of a bounded memo
        lru = knobs.get('lru') if isinstance(knobs.get('lru'), int) else 4
        for k in range(min(2 * lru + 2, 20)):
            out.append({'op': 'inline', 't': ['tuple', ['s', 'int'], ['lit', k]], 'data': tg.enc([k, k]), 'custom': None})
    out.append({'op': 'gc'})
    out.append({'op': 'mkdict', 'name': b, 'entries': ['obj', second]})
    for (ast, data) in probes:
        out.append({'op': 'inline', 't': ast, 'data': tg.enc(data), 'custom': ['dictref', b]})
    return out


def _arg_handler_scenario(ro, sym):
    """
    A handler that looks at the type *arguments* (accepts list[int], declines every other list[...]) is offered
    several parameterisations of one origin in a random order: what it answered for one must not decide the others.
    """
    cases = [(['list', ['s', 'int']], [3, 1, 2]), (['list', ['s', 'str']], ['b', 'a']), (['tlist', ['s', 'int']], [5, 6]),
             (['list', ['s', 'float']], [1.5]), (['dict', ['s', 'str'], ['s', 'int']], {'k': 1}),
             (['dict', ['s', 'str'], ['s', 'str']], {'k': 'v'}), (['tdict', ['s', 'str'], ['s', 'int']], {'q': 2})]
    custom = ro.choice([['one', 'list_int'], ['seq', 'list_int', 'dict_str_int'], ['one', 'dict_str_int'], ['seq', 'defer_ni', 'list_int']])
    out = []
    for (ast, data) in ro.sample(cases, ro.choice([3, 4, 5])):
        out.append({'op': 'inline', 't': ast, 'data': tg.enc(data), 'custom': custom})
        if ro.random() < 0.3:
            out.append({'op': 'inline', 't': ['tl', ast, ['s', 'int']], 'data': tg.enc([data, 1]), 'custom': custom})
    return out


def _dict_snapshot_scenario(ro, sym, ndict):
    """
    The application keeps a handler dict, uses it, edits it in place, and elsewhere builds another dict with what
    the first one *used to* contain: each call must see exactly the dict it was given, as it is at that moment.
    """
    a, b = f'h{ndict}', f'h{ndict + 1}'
    ty = ro.choice(['int', 'str'])
    (c1, c2) = DICT_CONVS[ty] if ro.random() < 0.5 else reversed(DICT_CONVS[ty])
    other = 'str' if ty == 'int' else 'int'
    e_orig = [[ty, c1], [other, DICT_CONVS[other][0]]]
    e_mut = ro.choice([[[ty, c1], [other, DICT_CONVS[other][1]]], [[ty, c2]], [[ty, c1]]])
    probe_a = (['s', ty], 4 if ty == 'int' else 'w')
    probe_b = (['s', other], 'v' if other == 'str' else 6)
    shapes = [probe_a, probe_b, (['list', ['s', other]], ['v'] if other == 'str' else [6]), (['dict', ['s', 'str'], ['s', other]], {'k': 'v' if other == 'str' else 6})]
    out = [{'op': 'mkdict', 'name': a, 'entries': e_orig},
           {'op': 'inline', 't': probe_a[0], 'data': tg.enc(probe_a[1]), 'custom': ['dictref', a]},
           {'op': 'mutdict', 'name': a, 'entries': e_mut},
           {'op': 'mkdict', 'name': b, 'entries': e_orig}]
    for (ast, data) in ro.sample(shapes, ro.choice([2, 3, 4])):
        out.append({'op': 'inline', 't': ast, 'data': tg.enc(data), 'custom': ['dictref', ro.choice([b, b, a])]})
    return out


def _literal_temporaries_scenario(ro, sym, knobs, pick_custom):
    """
    The everyday `from_data(v, (int, list[int]))` pattern, several times in a row with type literals of one shape
    whose members are *temporaries* (fresh generic aliases that die with the literal): a memo that keys a literal by
    anything derived from its members must survive the members' ids being re-used by the next literal's members.
    """
    heads = [['s', 'int'], ['s', 'str'], ['s', 'float']]
    temps = [['list', ['s', 'int']], ['set', ['s', 'int']], ['dict', ['s', 'str'], ['s', 'int']], ['vtuple', ['s', 'str']],
             ['tuple', ['s', 'int'], ['s', 'int']], ['list', ['s', 'str']], ['frozenset', ['s', 'int']], ['tlist', ['s', 'float']]]
    head = ro.choice(heads)
    kind = ro.choice(['tl', 'tl', 'dl', 'nested'])
    custom = ro.choice([None, None, pick_custom()])
    out = []
    for tmp in ro.sample(temps, ro.choice([2, 3, 4])):
        if kind == 'tl':
            ast = ['tl', head, tmp]
        elif kind == 'dl':
            ast = ['dl', [['a', head], ['b', tmp]]]
        else:
            ast = ['tl', head, ['tl', tmp, head]]
        data = tg.sample_value(ast, sym, ro, valid_p=1.0)
        out.append({'op': 'inline', 't': ast, 'data': tg.enc(data), 'custom': custom})
        if ro.random() < 0.3:
            out.append({'op': ro.choice(['gc', 'typing_cleanup'])})
    return out


def _inferred_serialiser_scenario(ro, sym, roots, nroot, ninst):
    """
    A dataclass with class-level handlers and an untyped payload is serialised (its payload members get converters
    inferred from their run-time types, under the class's handlers); afterwards plain containers are serialised /
    passed to a constructor with no handlers at all.  The second step must not inherit anything from the first.
    """
    cands = [n for (n, sp) in sorted(sym.class_specs.items())
             if not sp.get('tv') and sp.get('custom') and any(f['n'] == 'payload' for f in sp['fields'])]
    if not cands:
        return [], nroot, ninst
    cname = ro.choice(cands)
    spec = sym.class_specs[cname]
    out = []
    croot = next((r for (r, a) in sorted(roots.items()) if a == ['cls', cname]), None)
    if croot is None:
        croot = f'r{nroot}'
        nroot += 1
        roots[croot] = ['cls', cname]
        out.append({'op': 'build', 'name': croot, 't': ['cls', cname]})
    pf = next(f for f in spec['fields'] if f['n'] == 'payload')
    nested = {'n': 250, 'm': {'k': 3}, 's': 'txt', 'l': [1, 2]}
    payload = nested if pf['t'][0] == 'dict' else ([nested, [4, 'x']] if pf['t'][0] == 'list' else nested)
    data = tg.sample_instance_data(spec, {}, sym, ro, 1.0, 'ascii', 0)
    if not isinstance(data, dict):
        return [], nroot, ninst
    data = dict(data)
    opts = spec.get('opts') or {}
    pname = 'payload'
    if opts.get('rename'):
        from pane.field import rename_field
        pname = rename_field('payload', opts['rename'])
    data[pname] = payload
    i0 = f'i{ninst}'
    ninst += 1
    out.append({'op': 'keep', 'as': i0, 'root': croot, 'data': tg.enc(data), 'custom': None})
    out.append({'op': 'serialise', 'inst': i0, 'root': croot, 'infer': ro.random() < 0.3, 'roundtrip': False, 'custom': None})
    # step 2: plain containers, no handlers anywhere
    shape = ro.choice([['dict', ['s', 'str'], ['s', 'any']], ['list', ['s', 'any']], ['dict', ['s', 'str'], ['s', 'int']]])
    proot = f'r{nroot}'
    nroot += 1
    roots[proot] = shape
    out.append({'op': 'build', 'name': proot, 't': shape})
    pdata = {'n': 250, 'z': 7} if shape[0] == 'dict' else [250, {'n': 7}]
    i1 = f'i{ninst}'
    ninst += 1
    out.append({'op': 'keep', 'as': i1, 'root': proot, 'data': tg.enc(pdata), 'custom': None})
    out.append({'op': 'serialise', 'inst': i1, 'root': proot, 'infer': True, 'roundtrip': ro.random() < 0.5, 'custom': None})
    return out, nroot, ninst


def _serialise_history_scenario(ro, sym, roots, ninst):
    """
    Several values of one (union-bearing) type serialised through the same memoised converter:
    a converter that remembers anything about earlier values shows up here.
    """
    out = []
    r = None
    if ro.random() < 0.5:
        # a union whose members share a run-time container type but treat the elements differently
        shape = ro.choice(['list', 'tlist', 'dict', 'vtuple'])
        (e1, e2) = ro.sample(['int', 'str', 'Fraction', 'date', 'float', 'Decimal'], 2)
        if shape == 'dict':
            ast = ['union', ['dict', ['s', 'str'], ['s', e1]], ['dict', ['s', 'str'], ['s', e2]]]
        else:
            ast = ['union', [shape, ['s', e1]], [shape, ['s', e2]]]
        ast = tg.normalise_unions(ast)
        r = 'ru%d' % ninst
        roots[r] = ast
        out.append({'op': 'build', 'name': r, 't': ast})
    else:
        cands = [r_ for (r_, a) in sorted(roots.items())
                 if tg.contains(a, lambda x: x[0] in ('union', 'opt', 'vol', 'cls', 'gen', 'dict', 'list'))]
        if not cands:
            return [], ninst
        r = ro.choice(cands)
    names = []
    for _ in range(ro.choice([2, 3, 4])):
        iname = f'i{ninst}'
        ninst += 1
        names.append(iname)
        out.append({'op': 'keep', 'as': iname, 'root': r, 'custom': None,
                    'data': tg.enc(tg.sample_value(roots[r], sym, ro, valid_p=1.0))})
    order = names * 2
    ro.shuffle(order)
    for iname in order[:ro.choice([2, 3, 4, 5])]:
        out.append({'op': 'serialise', 'inst': iname, 'root': r, 'infer': ro.random() < 0.3, 'roundtrip': ro.random() < 0.3, 'custom': None})
    return out, ninst


def _role_collision_scenario(ro, sym, roots, knobs, hspecs, nroot):
    """
    The same type reached through different handler *contexts*: a nested dataclass converted directly
    with call-level handlers, and through an enclosing dataclass (whose class-level handlers arrive as
    'class-local' ones), with the small conflicting handler pool at every level.
    """
    out = []
    pairs = []
    for (oname, ospec) in sym.class_specs.items():
        if ospec.get('tv'):
            continue
        for f in ospec['fields']:
            for (iname, ispec) in sym.class_specs.items():
                if iname != oname and not ispec.get('tv') and tg.contains(f['t'], lambda a: a == ['cls', iname]):
                    pairs.append((oname, iname))
    if not pairs:
        return out, nroot
    (oname, iname) = ro.choice(sorted(set(pairs)))
    names = {}
    for cname in (oname, iname):
        existing = [r for (r, a) in roots.items() if a == ['cls', cname]]
        if existing:
            names[cname] = existing[0]
        else:
            rname = f'r{nroot}'
            nroot += 1
            roots[rname] = ['cls', cname]
            names[cname] = rname
            out.append({'op': 'build', 'name': rname, 't': ['cls', cname]})
    seq = [oname, iname] * 3
    ro.shuffle(seq)
    for cname in seq[:ro.choice([3, 4, 5, 6])]:
        r = names[cname]
        out.append({'op': 'convert', 'root': r, 'custom': ro.choice(hspecs),
                    'data': tg.enc(tg.sample_value(roots[r], sym, ro, valid_p=1.0))})
    return out, nroot


# ---------------------------------------------------------------------------------------------
# execution

class Violation(Exception):
    def __init__(self, kind, detail):
        self.kind = kind
        self.detail = detail


EXC_CLASSES = {'RuntimeError': RuntimeError, 'KeyError': KeyError, 'ValueError': ValueError}


class Exec:
    def __init__(self, plan):
        self.plan = plan
        self.knobs = plan['knobs']
        self.seams = seams()
        self.pane = self.seams.pane
        self.trace = Trace()
        self.counters = {}
        self.states = set()
        self.world = tg.World()
        self.world.faulty = tg.make_faulty_pool()
        self.insts = {}
        self.hdicts = {}
        self.hdict_entries = {}
        self.inst_src = {}
        self.inst_src_enc = {}
        self.pristine = None
        self._inline_holder = None
        self.oracle_rng = Streams(plan['seed']).rng('oracle')
        self.root_asts = {}
        self.def_history = []
        self.violation = None
        self.nontrivial = False
        st = Streams(plan['seed'])
        self.alloc = SimAlloc(st.rng('alloc'), self.knobs['p_recycle'], counters=self.counters)
        self.nops = 0
        self.lru = None
        self.pending_gc_at = None

    def count(self, k, n=1):
        self.counters[k] = self.counters.get(k, 0) + n

    def setup(self, light=False):
        if not light:
            gc.collect()
        gc.disable()
        if not light:
            self.alloc.calibrate()
        self.seams.install_id(self.alloc.sim_id)
        if self.knobs.get('lru'):
            self.lru = self.seams.make_lru(None if self.knobs['lru'] == 'unbounded' else self.knobs['lru'])
            if self.lru is None:
                self.count('lru_mode_unavailable')
            else:
                self.seams.bind_mc(self.lru)

    def teardown(self):
        self.alloc.active = False
        self.seams.restore()
        self.world.clear()
        self.insts.clear()
        self.hdicts.clear()
        gc.enable()

    # -- the two sides of the oracle
    def real(self, fn):
        try:
            return ['ok', fp_value(fn())]
        except BaseException as e:  # noqa
            if isinstance(e, (KeyboardInterrupt, SystemExit, HarnessError)):
                raise
            return fp_exception(e), e

    def side(self, fn, fresh):
        """Run fn() against the live memo (fresh=False) or with memoisation bypassed (fresh=True)."""
        s = self.seams
        saved = s.current_mc
        if fresh:
            s.bind_mc(s.undecorated)
        try:
            try:
                return ['ok', fp_value(fn())], None
            except BaseException as e:  # noqa
                if isinstance(e, (KeyboardInterrupt, SystemExit, HarnessError)):
                    raise
                return fp_exception(e), e
        finally:
            if fresh:
                s.bind_mc(saved)

    def gc_inside(self, fn, k):
        """fn, with a full collection (and typing's cache clean-up) injected at the k-th line pane executes."""
        n = [0]
        ex = self

        def ltr(frame, event, arg):
            if event == 'line':
                n[0] += 1
                if n[0] == k:
                    free0 = len(ex.alloc.free)
                    gc.collect()
                    for f in typing._cleanups:
                        f()
                    ex.count('gc_inside_call')
                    if len(ex.alloc.free) > free0:
                        ex.count('type_died_inside_call', len(ex.alloc.free) - free0)
                        ex.nontrivial = True
            return ltr

        def tr(frame, event, arg):
            return ltr if frame.f_code.co_filename.endswith(TRACED_ALL) else None

        def wrapped():
            sys.settrace(tr)
            try:
                return fn()
            finally:
                sys.settrace(None)
        return wrapped

    def compare(self, what, mk, deps=(), cs=None):
        """
        mk(world, insts) -> callable performing the call on the objects of that world.
        The outcome against the live memo must equal (1) the outcome of the same call on the same
        objects with memoisation bypassed, and (2) the outcome on equivalent type objects rebuilt
        from their definitions in a pristine world (which also exposes caches kept anywhere else:
        per class, per field, per module).
        """
        fn = mk(self.world, self.insts)
        fired_before = sum(self.world.faulty[n].fired for n in self.world.faulty)
        gc_at, self.pending_gc_at = self.pending_gc_at, None
        real_fp, real_exc = self.side(self.gc_inside(fn, gc_at) if gc_at else fn, fresh=False)
        fired = sum(self.world.faulty[n].fired for n in self.world.faulty) - fired_before
        for h in self.world.faulty.values():
            h.disarm()
        if fired:
            self.count('handler_fault_fired', fired)
            self.nontrivial = True
            injected = [h.last_exc for h in self.world.faulty.values() if h.last_exc is not None]
            if real_exc is None or not any(real_exc is x for x in injected):
                raise Violation('fault_not_propagated',
                                f"{what}: a handler raised an injected exception during converter construction but the call "
                                f"{'returned normally' if real_exc is None else 'raised ' + type(real_exc).__name__}")
            real_exc = None
            # nothing half-built may be observable: the retry (fault cleared) must equal fresh
            self.count('build_failed_then_retried')
            real_fp, real_exc = self.side(fn, fresh=False)
        ref_fp, _ = self.side(fn, fresh=True)
        self.trace.add('cmp', what, h64(canon(order_free(real_fp))) % 10**9, h64(canon(order_free(ref_fp))) % 10**9)
        if real_fp != ref_fp:
            raise Violation('history_dependent',
                            f"{what}: with history {self._short(real_fp)} but freshly built {self._short(ref_fp)}")
        fw = self.fresh_world(deps)
        if fw is not None:
            (w2, i2) = fw
            try:
                fn2 = mk(w2, i2)
            except HarnessError:
                raise
            except Exception:
                fn2 = None
            if fn2 is not None:
                fresh_fp, _ = self.side(fn2, fresh=True)
                self.count('fresh_world_compared')
                if real_fp != fresh_fp:
                    raise Violation('history_dependent_hidden_state',
                                    f"{what}: with history {self._short(real_fp)} but on freshly defined, equivalent "
                                    f"type objects {self._short(fresh_fp)}")
            w2.clear()
        # calls whose converter is inferred from run-time values (serialisation without a declared type, the
        # constructor path) are the ones a process-wide, value-type-keyed cache would poison: always judged
        # against a pristine process; the others are sampled
        p_pristine = 1.0 if (cs is not None and (cs['kind'] in ('serialise', 'construct') or cs.get('always_pristine'))) \
            else self.knobs.get('pristine_p', 0.3)
        if cs is not None and self.pristine is not None and self.oracle_rng.random() < p_pristine:
            fp3 = self.pristine.call(self.pristine_request(cs, deps))
            self.count('pristine_process_compared')
            self.trace.add('pristine', h64(canon(order_free(fp3))) % 10**9 if fp3 is not None else None)
            if fp3 is not None and real_fp != fp3:
                raise Violation('history_dependent_process_state',
                                f"{what}: with history {self._short(real_fp)} but in a process that has never converted "
                                f"anything else {self._short(fp3)}")
        return real_fp

    def pristine_request(self, cs, deps):
        return {'plan_stub': {'prop': PROP, 'seed': self.plan['seed'], 'cls': self.plan['cls'], 'knobs': self.knobs, 'ops': []},
                'def_history': self.def_history, 'root_asts': self.root_asts, 'inst_src': self.inst_src_enc,
                'hdicts': self.hdict_entries, 'cs': cs, 'deps': [list(d) for d in deps]}

    def mk_from_cs(self, cs):
        """Build the call from its JSON description (used on this side and in the pristine-process oracle)."""
        pane = self.pane
        conv_mod = self.seams.convert_mod
        kind = cs['kind']
        H = self.handlers(cs.get('custom'))
        if kind == 'convert':
            root, data = cs['root'], tg.dec(cs['data'])

            def mk(world, insts):
                T = world.refs[root]
                return lambda: pane.from_data(data, T, custom=H)
            return mk
        if kind == 'inline':
            ast, data = cs['t'], tg.dec(cs['data'])
            real_world, holder = self.world, self._inline_holder

            def mk(world, insts):
                T = holder['T'] if (world is real_world and holder is not None) else tg.build(ast, world)
                return lambda: pane.from_data(data, T, custom=H)
            return mk
        if kind == 'lookup':
            root = cs['root']

            def mk(world, insts):
                T = world.refs[root]

                def call():
                    conv = conv_mod.make_converter(T, conv_mod.ConverterHandlers.make(H))
                    return [type(conv).__name__, conv.expected(), conv.expected(True)]
                return call
            return mk
        if kind == 'serialise':
            name, root, mode = cs['inst'], cs.get('root'), cs['mode']

            def mk(world, insts):
                x = insts[name]
                if mode == 'infer':
                    return lambda: pane.into_data(x, custom=H)
                T = world.refs[root]
                if mode == 'typed':
                    return lambda: pane.into_data(x, T, custom=H)
                return lambda: pane.convert(x, T, custom=H)
            return mk
        if kind == 'construct':
            root = cs['root']
            kwargs = {k: tg.dec(v) for (k, v) in cs['kwargs'].items()}

            def mk(world, insts):
                T = world.refs[root]
                return lambda: T(**kwargs)
            return mk
        raise HarnessError(f"unknown call spec {cs!r}")

    def fresh_world(self, deps, siblings=False):
        """Replay the definitional history (no conversions) that `deps` depend on into a pristine world."""
        need_cls, need_roots, need_insts = set(), set(), set()

        def walk_ast(ast):
            k = ast[0]
            if k in ('cls', 'gen'):
                walk_cls(ast[1])
            elif k == 'gen2':
                walk_root(ast[1])
            elif k == 'enum':
                need_cls.add(ast[1])
            elif k == 'ref':
                walk_root(ast[1])
            if k == 'dl':
                for (_, a) in ast[1]:
                    walk_ast(a)
            elif k == 'ann':
                walk_ast(ast[1])
            elif k not in ('s', 'cls', 'enum', 'lit', 'ref', 'tv'):
                for a in ast[{'gen': 2, 'gen2': 2, 'tagged': 3}.get(k, 1):]:
                    walk_ast(a)

        def walk_cls(name):
            if name in need_cls:
                return
            need_cls.add(name)
            spec = self.world.class_specs.get(name)
            if spec is None:
                return
            if spec.get('base') is not None:
                walk_ast(spec['base'])
            for f in spec['fields']:
                walk_ast(f['t'])

        def walk_root(name):
            if name in need_roots:
                return
            need_roots.add(name)
            ast = self.root_asts.get(name)
            if ast is not None:
                walk_ast(ast)

        for d in deps:
            if d[0] == 'root':
                walk_root(d[1])
            elif d[0] == 'ast':
                walk_ast(d[1])
            elif d[0] == 'inst':
                need_insts.add(d[1])
                src = self.inst_src.get(d[1])
                if src is None:
                    return None
                walk_root(src[0])
        w2 = tg.World()
        w2.faulty = self.world.faulty
        i2 = {}
        try:
            for op in self.def_history:
                k = op['op']
                if k == 'defclass' and op['spec']['name'] in need_cls:
                    tg.define_class(op['spec'], w2)
                elif k == 'defenum' and op['spec']['name'] in need_cls:
                    tg.define_enum(op['spec'], w2)
                elif k == 'build' and op['name'] in need_roots:
                    w2.refs[op['name']] = tg.build(op['t'], w2)
                elif k == 'subscript' and (op['name'] in need_roots or (siblings and op.get('g', op['t'][1]) in need_cls)):
                    # siblings=True would replay every earlier subscription of the classes involved (used while a
                    # subscription-order defect was a *listed* finding, to keep it out of other operations' verdicts);
                    # since its repair only the subscriptions the target actually depends on are replayed
                    if self._deps_ok(op['t'], w2):
                        w2.refs[op['name']] = tg.build(op['t'], w2)
            for name in need_insts:
                (root, data) = self.inst_src[name]
                T2 = w2.refs[root]
                saved = self.seams.current_mc
                self.seams.bind_mc(self.seams.undecorated)
                try:
                    i2[name] = self.pane.from_data(data, T2)
                finally:
                    self.seams.bind_mc(saved)
        except HarnessError:
            raise
        except Exception:
            self.count('fresh_world_failed')
            return None
        return (w2, i2)

    @staticmethod
    def _deps_ok(ast, w):
        def bad(a):
            if a[0] in ('cls', 'gen'):
                return a[1] not in w.classes
            if a[0] == 'enum':
                return a[1] not in w.enums
            if a[0] in ('ref', 'gen2'):
                return a[1] not in w.refs
            return False
        return not tg.contains(ast, bad)

    @staticmethod
    def _short(fp):
        s = mask(canon(fp))
        return s if len(s) <= 260 else s[:260] + '...'

    def _memo(self):
        mc = self.seams.current_mc
        c = getattr(mc, 'cache', None)
        return c if isinstance(c, dict) else None

    def _hit_stats(self):
        m = self._memo()
        return (len(m) if m is not None else -1, self.alloc.calls)

    def _note_hits(self, before):
        pass

    # -- operations
    def run(self):
        self.trace.add('knobs', self.knobs, self.plan['cls'])
        for i, op in enumerate(self.plan['ops']):
            self.nops = i + 1
            self.pending_gc_at = op.get('gc_at')
            try:
                getattr(self, 'op_' + op['op'])(i, op)
                self.check_memo_invariants(i)
            except Violation as v:
                sig = f"{op['op']}:{v.kind}"
                self.violation = {'op_index': i, 'op': op['op'], 'kind': v.kind, 'detail': v.detail, 'signature': sig}
                self.trace.add('violation', i, v.kind, v.detail)
                break
            if self.knobs.get('gc_eager') and op['op'] in ('drop', 'inline'):
                gc.collect()
            m = self._memo()
            self.states.add(h64(len(m) if m is not None else -1, len(self.world.refs), len(self.alloc.free),
                                len(self.alloc.table), len(self.insts)))
        self.trace.add('alloc', len(self.alloc.decisions), h64(canon(self.alloc.decisions)) % 10**12)

    def handlers(self, spec):
        if spec is not None and spec[0] == 'dictref':
            # a dict object the application keeps and passes again and again (and may mutate in between)
            return self.hdicts.get(spec[1])
        return tg.build_handlers(spec, self.world.faulty)

    def _dict_from_entries(self, entries):
        if entries and entries[0] == 'obj':
            return tg.HandlerObj(entries[1])
        if entries and entries[0] == 'list':
            return [tg.HANDLERS[n] for n in entries[1:]]
        convs = tg._custom_converters()
        return {tg.SCALARS[ty]: convs[cn] for (ty, cn) in entries}

    def op_mkdict(self, i, op):
        self.hdicts[op['name']] = self._dict_from_entries(op['entries'])
        self.hdict_entries[op['name']] = op['entries']
        self.trace.add('mkdict', i, op['name'])

    def op_mutdict(self, i, op):
        d = self.hdicts.get(op['name'])
        if d is None:
            self.trace.add('skip', i)
            return
        new = self._dict_from_entries(op['entries'])
        if type(new) is not type(d):
            self.trace.add('skip', i, 'container kind')
            return
        if isinstance(d, list):
            d[:] = new
        else:
            d.clear()
            d.update(new)
        self.hdict_entries[op['name']] = op['entries']
        self.count('handler_dict_mutated')
        self.trace.add('mutdict', i, op['name'])

    def op_dropdict(self, i, op):
        if op['name'] not in self.hdicts:
            self.trace.add('skip', i)
            return
        free0 = len(self.alloc.free)
        if isinstance(self.hdicts[op['name']], tg.HandlerObj):
            self.hdicts.pop(op['name'])         # dies by reference count unless pane still holds it (a memo key does)
        else:
            self.alloc.release_literal(self.hdicts, op['name'])
        self.hdict_entries.pop(op['name'], None)
        self.trace.add('dropdict', i, op['name'], len(self.alloc.free) - free0)

    def op_construct(self, i, op):
        root = op['root']
        if root not in self.world.refs:
            self.trace.add('skip', i)
            return
        cs = {'kind': 'construct', 'root': root, 'kwargs': op['kwargs']}
        self.compare(f"<{root}>(**kwargs) [constructor]", self.mk_from_cs(cs), deps=[('root', root)], cs=cs)
        self.count('op_construct')

    def op_defclass(self, i, op):
        try:
            tg.define_class(op['spec'], self.world)
            self.def_history.append(op)
            self.trace.add('defclass', i, op['spec']['name'], 'ok')
        except HarnessError:
            raise
        except Exception as e:
            self.trace.add('defclass', i, op['spec']['name'], type(e).__name__)
            self.count('def_failed')

    def op_defenum(self, i, op):
        tg.define_enum(op['spec'], self.world)
        self.def_history.append(op)
        self.trace.add('defenum', i, op['spec']['name'])

    def _build(self, ast):
        try:
            return tg.build(ast, self.world)
        except HarnessError:
            raise
        except Exception:
            return None

    def _buildable(self, ast):
        def ok(a):
            if a[0] in ('ref', 'gen2'):
                return a[1] in self.world.refs
            if a[0] in ('cls', 'gen'):
                return a[1] in self.world.classes
            if a[0] == 'enum':
                return a[1] in self.world.enums
            return True
        return not tg.contains(ast, lambda a: not ok(a))

    def op_build(self, i, op):
        if not self._buildable(op['t']):
            self.trace.add('skip', i)
            return
        obj = self._build(op['t'])
        if obj is None:
            self.trace.add('skip', i, 'build-raised')
            self.count('build_raised')
            return
        self.world.refs[op['name']] = obj
        self.root_asts[op['name']] = op['t']
        self.def_history.append(op)
        self.trace.add('build', i, op['name'])

    def op_convert(self, i, op):
        if op['root'] not in self.world.refs:
            self.trace.add('skip', i)
            return
        root = op['root']
        cs = {'kind': 'convert', 'root': root, 'data': op['data'], 'custom': op['custom']}
        if op.get('pristine'):
            cs['always_pristine'] = True
        self.compare(f"from_data(<{root}>, custom={op['custom']})", self.mk_from_cs(cs), deps=[('root', root)], cs=cs)
        self.count('op_convert')

    def op_inline(self, i, op):
        if not self._buildable(op['t']):
            self.trace.add('skip', i)
            return
        holder = {'T': self._build(op['t'])}
        if holder['T'] is None:
            self.trace.add('skip', i, 'build-raised')
            return
        cs = {'kind': 'inline', 't': op['t'], 'data': op['data'], 'custom': op['custom']}
        if op.get('pristine'):
            cs['always_pristine'] = True
        self._inline_holder = holder
        mk = self.mk_from_cs(cs)
        # the pristine-process oracle cannot see roots referenced by name unless they are dependencies
        try:
            self.compare(f"from_data(<inline {canon(op['t'])[:80]}>, custom={op['custom']})", mk, deps=[('ast', op['t'])], cs=cs)
        finally:
            mk = None
            self._inline_holder = None
            self._release(holder, 'T')
        self.count('op_inline')

    def op_lookup(self, i, op):
        if op['root'] not in self.world.refs:
            self.trace.add('skip', i)
            return
        root = op['root']
        cs = {'kind': 'lookup', 'root': root, 'custom': op['custom']}
        self.compare(f"make_converter(<{root}>, custom={op['custom']}).expected()", self.mk_from_cs(cs), deps=[('root', root)], cs=cs)
        self.count('op_lookup')

    def op_keep(self, i, op):
        if op['root'] not in self.world.refs:
            self.trace.add('skip', i)
            return
        root = op['root']
        cs = {'kind': 'convert', 'root': root, 'data': op['data'], 'custom': None}
        fp = self.compare(f"from_data(<{root}>) [keep]", self.mk_from_cs(cs), deps=[('root', root)], cs=cs)
        if fp[0] == 'ok':
            try:
                data = tg.dec(op['data'])
                self.insts[op['as']] = self.pane.from_data(data, self.world.refs[root])
                self.inst_src[op['as']] = (root, data)
                self.inst_src_enc[op['as']] = [root, op['data']]
            except Exception:
                pass

    def op_serialise(self, i, op):
        if op['inst'] not in self.insts:
            self.trace.add('skip', i)
            return
        name, root = op['inst'], op['root']
        have_T = root in self.world.refs
        deps = [('inst', name)] + ([('root', root)] if have_T else [])
        if op.get('infer') or not have_T:
            self.count('serialiser_inferred_from_runtime_type')
            cs = {'kind': 'serialise', 'inst': name, 'root': None, 'mode': 'infer', 'custom': op['custom']}
            self.compare(f"into_data(<{name}>, custom={op['custom']})", self.mk_from_cs(cs), deps=deps, cs=cs)
        else:
            cs = {'kind': 'serialise', 'inst': name, 'root': root, 'mode': 'typed', 'custom': op['custom']}
            self.compare(f"into_data(<{name}>, <{root}>, custom={op['custom']})", self.mk_from_cs(cs), deps=deps, cs=cs)
        if op.get('roundtrip') and have_T:
            cs = {'kind': 'serialise', 'inst': name, 'root': root, 'mode': 'roundtrip', 'custom': op['custom']}
            self.compare(f"convert(<{name}>, <{root}>, custom={op['custom']})", self.mk_from_cs(cs), deps=deps, cs=cs)
        self.count('op_serialise')

    def op_subscript(self, i, op):
        """
        G[params] (or a re-subscription of a partially bound G) through pane's subclass memo, compared with
        (a) a subclass built afresh by the undecorated constructor, where that seam exists, and
        (b) the same subscription *path* performed alone on freshly defined classes.
        """
        ast = op['t']
        if not self._buildable(ast):
            self.trace.add('skip', i)
            return
        pane = self.pane
        data = tg.dec(op['data'])
        try:
            base = self.world.classes[ast[1]] if ast[0] == 'gen' else self.world.refs[ast[1]]
            params = tuple(tg.build(a, self.world) for a in ast[2:])
        except HarnessError:
            raise
        except Exception:
            self.trace.add('skip', i, 'params')
            return
        try:
            real_cls = base[params if len(params) != 1 else params[0]]
        except Exception as e:
            self.trace.add('subscript', i, 'raised', type(e).__name__)
            return
        rname = op['name']
        self.world.refs[rname] = real_cls
        self.root_asts[rname] = ast
        self.def_history.append(op)
        self.count('op_subscript')
        if ast[0] == 'gen2':
            self.count('op_resubscript')
        # converters are built with memoisation bypassed on both sides: only the subclass memo differs
        a, _ = self.side(lambda: pane.from_data(data, real_cls), fresh=True)
        candidates = []
        sub = sys.modules['pane.classes'].__dict__.get('_make_subclass')
        fresh_fn = getattr(sub, '__wrapped__', None)
        if fresh_fn is not None:
            try:
                fresh_cls = fresh_fn(base, params)
                candidates.append(('a fresh subclass', self.side(lambda: pane.from_data(data, fresh_cls), fresh=True)[0]))
            except Exception:
                pass
        else:
            self.count('subscript_memo_seam_missing')
        fw = self.fresh_world([('root', rname)], siblings=False)
        if fw is not None:
            (w2, _i2) = fw
            T2 = w2.refs.get(rname)
            if T2 is not None:
                candidates.append(('the same subscription made alone on freshly defined classes',
                                   self.side(lambda: pane.from_data(data, T2), fresh=True)[0]))
                self.count('subscript_path_only_compared')
        self.trace.add('subscript', i, h64(canon(order_free(a))) % 10**9, [h64(canon(order_free(b))) % 10**9 for (_, b) in candidates])
        for (label, b) in candidates:
            if a == b:
                continue
            bound = getattr(real_cls, '__pane_boundvars__', {})
            cached_params = tuple(bound.values())
            reordered = False
            try:
                reordered = (cached_params == params and
                             [spell(p) for p in cached_params] != [spell(p) for p in params])
            except Exception:
                pass
            if reordered:
                self.count('subscript_equal_params_different_order')
                self.nontrivial = True
                raise Violation('equal_params_reordered_union',
                                f"{op.get('g', ast[1])}[{', '.join(map(str, params))}] returned the class memoised for "
                                f"[{', '.join(map(str, cached_params))}]: {self._short(a)} but {label} gives {self._short(b)}")
            raise Violation('history_dependent', f"{op.get('g', ast[1])}[{', '.join(map(str, params))}] behaves differently from "
                                                 f"{label}: {self._short(a)} vs {self._short(b)}")
        # and the ordinary history check on the memoised class
        # a specialisation is also judged against a process that has never subscripted (or converted) anything
        # else: typing's own memo tables are part of what earlier subscriptions leave behind
        cs = {'kind': 'convert', 'root': rname, 'data': op['data'], 'custom': None, 'always_pristine': True}
        self.compare(f"from_data(<{rname}>) [subscript]", self.mk_from_cs(cs), deps=[('root', rname)], cs=cs)

    def _release(self, holder, key):
        obj = holder[key]
        if isinstance(obj, (tuple, dict)):
            del obj
            self.alloc.release_literal(holder, key)
        else:
            del obj
            holder.pop(key)

    def op_drop(self, i, op):
        if op['root'] not in self.world.refs:
            self.trace.add('skip', i)
            return
        free0 = len(self.alloc.free)
        self._release(self.world.refs, op['root'])
        self.trace.add('drop', i, op['root'], len(self.alloc.free) - free0)
        self.count('op_drop')

    def op_gc(self, i, op):
        free0 = len(self.alloc.free)
        gc.collect()
        freed = len(self.alloc.free) - free0
        if freed:
            self.count('type_died_gc', freed)
        self.trace.add('gc', i, freed)

    def op_typing_cleanup(self, i, op):
        free0 = len(self.alloc.free)
        for f in typing._cleanups:
            f()
        freed = len(self.alloc.free) - free0
        if freed:
            self.count('typing_evicted_alias_died', freed)
        self.trace.add('typing_cleanup', i, freed)

    def op_arm(self, i, op):
        h = self.world.faulty.get(op['handler'])
        if h is not None:
            h.arm(op['k'], EXC_CLASSES[op['exc']])
        self.trace.add('arm', i, op['handler'], op['k'])

    # -- structural invariants of the memo (quiescent: single-threaded here)
    def check_memo_invariants(self, i):
        _check_kc_invariants(self.seams.current_mc, self.count)


def spell(p):
    """Order-sensitive structural spelling of a type expression (leaves by identity)."""
    import typing as t
    args = t.get_args(p)
    if not args:
        return ('leaf', id(p))
    return (repr(t.get_origin(p)), tuple(spell(a) for a in args))


def tg_flat(p):
    import typing as t
    if t.get_origin(p) is t.Union:
        for a in t.get_args(p):
            yield from tg_flat(a)
    else:
        yield p


def execute(plan, want_trace=False) -> dict:
    if plan['cls'] in ('threads', 'threads_wide'):
        return execute_threads(plan, want_trace)
    from .kernel import PristineServer
    srv = PristineServer(pristine_eval)
    ex = Exec(plan)
    ex.pristine = srv
    try:
        ex.setup()
        ex.run()
    finally:
        ex.teardown()
        if srv is not None:
            srv.close()
    a = ex.alloc
    c = ex.counters
    c['sim_id_calls'] = a.calls
    c['addresses_with_several_owners'] = sum(1 for v in a.owners.values() if v > 1)
    if c.get('address_recycled') or c.get('lru_full_states') or c.get('handler_dict_mutated'):
        ex.nontrivial = True
    res = {
        'digest': ex.trace.digest(), 'violation': ex.violation, 'counters': c, 'states': sorted(ex.states),
        'nontrivial': ex.nontrivial, 'nops': ex.nops,
    }
    if want_trace:
        res['trace'] = ex.trace.events
    return res


def pristine_eval_many(req):
    """Thread runs: every thread's calls, evaluated sequentially in a pristine process on a fresh world."""
    ex = Exec(req['plan_stub'])
    ex.setup(light=True)
    try:
        w = ex.world
        for op in req['setup']:
            try:
                if op['op'] == 'defclass':
                    tg.define_class(op['spec'], w)
                elif op['op'] == 'keep':
                    fp_, _ = ex.side(lambda: ex.insts.__setitem__(op['as'], ex.pane.from_data(tg.dec(op['data']), w.refs[op['root']])),
                                     fresh=True)
                else:
                    w.refs[op['name']] = tg.build(op['t'], w)
            except HarnessError:
                raise
            except Exception:
                pass
        out = []
        for ops in req['threads']:
            fps = []
            for op in ops:
                if op['op'] == 'gc':
                    fps.append(None)
                    continue
                try:
                    if op['op'] == 'inline':
                        cs = {'kind': 'inline', 't': op['t'], 'data': op['data'], 'custom': op['custom']}
                    elif op['op'] == 'lookup':
                        if op['root'] not in w.refs:
                            fps.append(None)
                            continue
                        cs = {'kind': 'lookup', 'root': op['root'], 'custom': op['custom']}
                    elif op['op'] == 'serialise':
                        if op['root'] not in w.refs or op['inst'] not in ex.insts:
                            fps.append(None)
                            continue
                        cs = {'kind': 'serialise', 'inst': op['inst'], 'root': op['root'], 'mode': op['mode'], 'custom': op['custom']}
                    else:
                        if op['root'] not in w.refs:
                            fps.append(None)
                            continue
                        cs = {'kind': 'convert', 'root': op['root'], 'data': op['data'], 'custom': op['custom']}
                    fn = ex.mk_from_cs(cs)(w, ex.insts)
                except HarnessError:
                    raise
                except Exception:
                    fps.append(None)
                    continue
                fp, _ = ex.side(fn, fresh=True)
                fps.append(fp)
            out.append(fps)
        return out
    finally:
        ex.teardown()


def pristine_eval(req):
    """Runs in a worker forked from the pristine oracle server: no conversion has ever happened in this process."""
    if req.get('many'):
        return pristine_eval_many(req)
    ex = Exec(req['plan_stub'])
    ex.setup(light=True)
    try:
        ex.def_history = req['def_history']
        ex.root_asts = req['root_asts']
        for op in ex.def_history:
            if op['op'] == 'defclass':
                ex.world.class_specs[op['spec']['name']] = op['spec']
            elif op['op'] == 'defenum':
                ex.world.enum_specs[op['spec']['name']] = op['spec']
        ex.inst_src = {k: (v[0], tg.dec(v[1])) for (k, v) in req['inst_src'].items()}
        ex.hdicts = {k: ex._dict_from_entries(v) for (k, v) in req['hdicts'].items()}
        mk = ex.mk_from_cs(req['cs'])
        fw = ex.fresh_world([tuple(d) for d in req['deps']])
        if fw is None:
            return None
        (w2, i2) = fw
        try:
            fn2 = mk(w2, i2)
        except HarnessError:
            raise
        except Exception:
            return None
        fp, _ = ex.side(fn2, fresh=True)
        return fp
    finally:
        ex.teardown()


def run_one(cfg, item):
    from .kernel import run_isolated
    return run_isolated(_run_one, cfg, item)


def _run_one(cfg, item):
    from .kernel import run_seed
    (cls, index) = item
    seed = run_seed(cfg['verif_seed'], PROP, cls, index)
    plan = gen_plan(seed, cls)
    res = execute(plan)
    res['cls'], res['index'], res['seed'] = cls, index, seed
    if res['violation'] is not None or cfg.get('keep_plan'):
        res['plan'] = plan
    if index < cfg.get('sample', 0):
        r2 = execute_isolated(plan, want_trace=True)
        res['sample'] = {'class': cls, 'index': index, 'seed': seed, 'plan': plan, 'trace': r2['trace']}
    return res


# ---------------------------------------------------------------------------------------------
# threads: several simulated caller threads under the baton scheduler

TRACED = ('pane/util.py', 'pane/convert.py')
TRACED_CLASSES = ('pane/classes.py', 'pane/converters.py')
TRACED_ALL = TRACED + ('pane/classes.py', 'pane/converters.py', 'pane/annotations.py', 'pane/types.py', 'pane/field.py', 'pane/errors.py')


def gen_plan_threads(seed: int, wide=False) -> dict:
    st = Streams(seed)
    rk, ro = st.rng('knobs'), st.rng('ops')
    target = rk.choice(['keycache', 'keycache', 'memo', 'memo', 'memo'])
    knobs = {
        'target': target,
        'nthreads': rk.choice([2, 2, 3, 4]) if not wide else rk.choice([4, 5, 6, 8]),
        'maxsize': rk.choice([None, 1, 1, 2, 2, 3, 4]) if target == 'keycache' else rk.choice([None, None, 'shipped', 1, 2, 3, 4, 8]),
        'switch_p': rk.choice([0.05, 0.15, 0.3, 0.5, 0.8]),
        'p_recycle': rk.choice([0.0, 1.0]),
        'keyspace': rk.choice([2, 3, 4, 6]),
        'valid_p': 0.85,
        'trace_scope': rk.choice(['memo', 'memo', 'all']),
        'opcode_trace': rk.random() < 0.3,
        'opcode_scope': rk.choice(['util', 'util', 'all']),     # bytecode-granularity pre-emption: the memo only, or every traced pane module
    }
    plan = {'prop': PROP, 'seed': seed, 'cls': 'threads_wide' if wide else 'threads', 'knobs': knobs, 'setup': [], 'threads': [], 'ops': []}
    if target == 'keycache':
        for _ in range(knobs['nthreads']):
            plan['threads'].append([ro.randrange(knobs['keyspace']) for _ in range(ro.choice([2, 3, 4, 6, 8]))])
        return plan
    tg._p()
    sym = tg.World()
    kinds = rk.sample(C10_KINDS, rk.choice([3, 5, 8]))
    roots = {}
    ncls = 0
    for _ in range(ro.choice([0, 1, 1, 2])):
        spec = tg.gen_class_spec(ro, sym, f'C{ncls}', [k for k in kinds if k not in ('tl', 'dl')], C10_SCALARS,
                                 custom_specs=[None, None, ['one', 'dbl_int']], generic_p=0.4)
        sym.classes[spec['name']] = True
        sym.class_specs[spec['name']] = spec
        plan['setup'].append({'op': 'defclass', 'spec': spec})
        ncls += 1
    for j in range(ro.choice([1, 2, 3, 4])):
        ast = tg.gen_type(ro, sym, kinds, C10_SCALARS, max_depth=2)
        roots[f'r{j}'] = ast
        plan['setup'].append({'op': 'build', 'name': f'r{j}', 't': ast})
    hs = [None, None, ['one', 'dbl_int'], ['seq', 'upper_str', 'dbl_int']]
    insts = {}
    for j, rn in enumerate(sorted(roots)):
        if ro.random() < 0.5:
            insts[f'i{j}'] = rn
            plan['setup'].append({'op': 'keep', 'as': f'i{j}', 'root': rn,
                                  'data': tg.enc(tg.sample_value(roots[rn], sym, ro, valid_p=1.0))})
    for _ in range(knobs['nthreads']):
        ops = []
        for _ in range(ro.choice([1, 2, 3, 4, 5])):
            r = ro.random()
            gens = [n for (n, sp) in sym.class_specs.items() if sp.get('tv')]
            if ro.random() < 0.05:
                ops.append({'op': 'gc'})      # a collection (and the weakref callbacks it fires) in the middle of other threads' lookups
                continue
            if gens and r < 0.15:
                g = ro.choice(gens)
                prm = [ro.choice([['s', 'int'], ['s', 'str'], ['s', 'float'], ['list', ['s', 'int']], ['union', ['s', 'float'], ['s', 'int']]])
                       for _ in sym.class_specs[g]['tv']]
                ast = tg.normalise_unions(['gen', g] + prm)
                ops.append({'op': 'inline', 't': ast, 'custom': ro.choice(hs),
                            'data': tg.enc(tg.sample_value(ast, sym, ro, valid_p=knobs['valid_p']))})
            elif insts and r < 0.2:
                i_ = ro.choice(sorted(insts))
                ops.append({'op': 'serialise', 'inst': i_, 'root': insts[i_], 'mode': ro.choice(['typed', 'infer', 'roundtrip']),
                            'custom': ro.choice(hs)})
            elif r < 0.55:
                rn = ro.choice(sorted(roots))
                ops.append({'op': 'convert', 'root': rn, 'custom': ro.choice(hs),
                            'data': tg.enc(tg.sample_value(roots[rn], sym, ro, valid_p=knobs['valid_p']))})
            elif r < 0.85:
                ast = tg.gen_type(ro, sym, [k for k in kinds if k not in ('cls', 'gen', 'enum')] or ['list'],
                                  C10_SCALARS, max_depth=2)
                ops.append({'op': 'inline', 't': ast, 'custom': ro.choice(hs),
                            'data': tg.enc(tg.sample_value(ast, sym, ro, valid_p=knobs['valid_p']))})
            else:
                ops.append({'op': 'lookup', 'root': ro.choice(sorted(roots)), 'custom': ro.choice(hs)})
        plan['threads'].append(ops)
    # scenario: every thread converts *different* valid values through one and the same dataclass converter (directly
    # and nested in a container) at the same time, pre-empted inside pane.classes / pane.converters: a converter
    # object that keeps per-call scratch state on itself hands one thread the other's fields
    rs = st.rng('same_class')
    plain = [n for (n, sp) in sorted(sym.class_specs.items()) if not sp.get('tv') and sp.get('fields')]
    if plain and rs.random() < 0.6:
        cname = rs.choice(plain)
        rname = next((r for (r, a) in sorted(roots.items()) if a == ['cls', cname]), None)
        if rname is None:
            rname = f'r{len(roots)}'
            roots[rname] = ['cls', cname]
            plan['setup'].append({'op': 'build', 'name': rname, 't': ['cls', cname]})
        lname = f'r{len(roots)}'
        roots[lname] = ['list', ['cls', cname]]
        plan['setup'].append({'op': 'build', 'name': lname, 't': roots[lname]})
        custom = rs.choice([None, None, ['one', 'dbl_int']])
        for ops in plan['threads']:
            for _ in range(rs.choice([1, 2, 3])):
                rn = rname if rs.random() < 0.7 else lname
                try:
                    data = tg.enc(tg.sample_value(roots[rn], sym, rs, valid_p=1.0 if rs.random() < 0.8 else 0.7))
                except HarnessError:
                    continue
                ops.insert(rs.randrange(len(ops) + 1), {'op': 'convert', 'root': rn, 'custom': custom, 'data': data})
        knobs['trace_scope'] = rs.choice(['all', 'all', 'classes'])
        knobs['switch_p'] = rs.choice([0.15, 0.3, 0.5])
        if rs.random() < 0.5:
            # windows that lie inside one source line (check-then-act on shared state): switch between bytecodes
            knobs['opcode_trace'] = True
            knobs['opcode_scope'] = 'all'
            knobs['switch_p'] = rs.choice([0.05, 0.15, 0.3])
    return plan


class _ThreadingProxy:
    """Stands in for the `threading` module inside pane's namespaces during a thread run: locks made through it are
    simulated ones, everything else (local, get_ident, Thread ...) is the real thing."""

    def __init__(self, real, make_lock):
        self._real = real
        self.RLock = make_lock
        self.Lock = make_lock

    def __getattr__(self, name):
        return getattr(self._real, name)


def _kc_func(x):
    return ('v', x * x + 1)


def _kc_key(x):
    return ('k', x)


def execute_threads(plan, want_trace=False) -> dict:
    from .sched import Deadlock, Scheduler, SimRLock, StepLimit
    knobs = plan['knobs']
    s = seams()
    st = Streams(plan['seed'])
    trace = Trace()
    counters = {}
    violation = None
    trace.add('knobs', knobs, 'threads')

    def count(k, n=1):
        counters[k] = counters.get(k, 0) + n

    sched = Scheduler(st.rng('sched'), {'all': TRACED_ALL, 'classes': TRACED_CLASSES}.get(knobs.get('trace_scope'), TRACED),
                      switch_p=knobs['switch_p'], schedule=plan.get('schedule'),
                      max_steps=360000 if (knobs.get('opcode_trace') and knobs.get('opcode_scope') == 'all') else 120000,
                      opcode_files=(() if not knobs.get('opcode_trace') else
                                    (TRACED_ALL if knobs.get('opcode_scope') == 'all' else ('pane/util.py',))))
    sched.region_probe = lambda fr: fr.f_code.co_name == '__call__' and fr.f_code.co_filename.endswith('pane/util.py')
    util = sys.modules['pane.util']

    def make_kc(f, key_f, maxsize):
        KeyCache = getattr(util, 'KeyCache', None)
        if KeyCache is None:
            return None
        util.__dict__['RLock'] = sched.make_lock     # the lock seam: locks created by KeyCache are simulated
        util.__dict__['Lock'] = sched.make_lock
        try:
            kc = KeyCache(f, key_f, maxsize=maxsize)
        finally:
            for n, v in saved_locks.items():
                if v is None:
                    util.__dict__.pop(n, None)
                else:
                    util.__dict__[n] = v
        swap_locks(kc)
        return kc

    swapped = []

    def swap_locks(obj):
        """Any real lock held by the memo object becomes a simulated one for the duration of the run
        (a real lock contended under the baton scheduler would block the thread that holds the baton)."""
        import _thread
        import threading
        real_types = (_thread.LockType, type(threading.RLock()))
        for name, val in list(vars(obj).items()) if hasattr(obj, '__dict__') else []:
            if isinstance(val, real_types):
                swapped.append((obj, name, val))
                setattr(obj, name, sched.make_lock())

    from .kernel import PristineServer
    pristine_srv = PristineServer(pristine_eval) if knobs['target'] != 'keycache' else None
    # every real lock that lives in a pane module (module globals, class attributes) is simulated for the run: a real
    # lock contended under the baton scheduler would block the one thread that is allowed to run
    import _thread
    import threading as _threading
    _real_lock_types = (_thread.LockType, type(_threading.RLock()))
    _seen = set()

    def _swap_in(obj, depth):
        """Replace real locks reachable from a pane module / class / pane-defined object (attributes, and one level
        of plain containers) by simulated ones; remembered in `swapped` and put back afterwards."""
        if id(obj) in _seen or depth > 3:
            return
        _seen.add(id(obj))
        try:
            items = list(vars(obj).items())
        except TypeError:
            items = []
        for _name, _val in items:
            if isinstance(_val, _real_lock_types):
                try:
                    setattr(obj, _name, sched.make_lock())
                    swapped.append((obj, _name, _val))
                except (AttributeError, TypeError):
                    pass
            elif isinstance(_val, type):
                if str(getattr(_val, '__module__', '')).split('.')[0] == 'pane':
                    _swap_in(_val, depth + 1)
            elif str(getattr(type(_val), '__module__', '')).split('.')[0] == 'pane' and hasattr(_val, '__dict__'):
                _swap_in(_val, depth + 1)
            elif isinstance(_val, (list, tuple)) and len(_val) <= 64:
                for _x in _val:
                    if str(getattr(type(_x), '__module__', '')).split('.')[0] == 'pane' and hasattr(_x, '__dict__'):
                        _swap_in(_x, depth + 1)
    shadowed = []
    for _m in s.mods.values():
        _swap_in(_m, 0)
        # locks that pane creates *during* the run (per converter, per table) must be simulated ones too: the lock
        # constructors visible in pane's module namespaces are shadowed for the duration of the run
        for _name, _val in list(vars(_m).items()):
            if _val is _threading.RLock or _val is _threading.Lock or _val is _thread.allocate_lock:
                shadowed.append((_m, _name, _val))
                setattr(_m, _name, sched.make_lock)
            elif _val is _threading:
                shadowed.append((_m, _name, _val))
                setattr(_m, _name, _ThreadingProxy(_threading, sched.make_lock))
    saved_locks = {n: util.__dict__.get(n) for n in ('RLock', 'Lock')}     # (already the simulated constructors)
    world = tg.World()
    alloc = SimAlloc(st.rng('alloc'), knobs['p_recycle'], counters=counters)
    results = []      # per thread: list of fingerprints
    expected = []
    kc = None
    inconclusive = False
    gc.collect()
    gc.disable()
    try:
        alloc.calibrate()
        s.install_id(alloc.sim_id)
        if knobs['target'] == 'keycache':
            kc = make_kc(_kc_func, _kc_key, knobs['maxsize'])
            if kc is None:
                # the stand-alone cache class is gone (renamed / replaced): this target has nothing to drive
                count('keycache_target_unavailable')
                plan = dict(plan, threads=[])
            for keys in plan['threads']:
                expected.append([['ok', fp_value(_kc_func(x))] for x in keys])

            def body(keys, out):
                def run():
                    for x in keys:
                        try:
                            out.append(['ok', fp_value(kc(x))])
                        except BaseException as e:  # noqa
                            if isinstance(e, SystemExit):
                                raise
                            out.append(fp_exception(e))
                return run
            for keys in plan['threads']:
                out = []
                results.append(out)
                sched.spawn(body(keys, out))
        else:
            pane = s.pane
            conv_mod = s.convert_mod
            t_insts = {}
            for op in plan['setup']:
                try:
                    if op['op'] == 'defclass':
                        tg.define_class(op['spec'], world)
                    elif op['op'] == 'keep':
                        # made with memoisation bypassed: the instance, not the memo, is what the threads share
                        saved_mc = s.current_mc
                        s.bind_mc(s.undecorated)
                        try:
                            t_insts[op['as']] = pane.from_data(tg.dec(op['data']), world.refs[op['root']])
                        finally:
                            s.bind_mc(saved_mc)
                    else:
                        world.refs[op['name']] = tg.build(op['t'], world)
                except HarnessError:
                    raise
                except Exception:
                    count('setup_failed')
            if knobs['maxsize'] != 'shipped':
                util.__dict__['RLock'] = sched.make_lock     # locks created while the memo is re-created are simulated
                util.__dict__['Lock'] = sched.make_lock
                try:
                    lru = s.make_lru(knobs['maxsize'])
                finally:
                    for n, v in saved_locks.items():
                        if v is None:
                            util.__dict__.pop(n, None)
                        else:
                            util.__dict__[n] = v
                if lru is None:
                    count('lru_mode_unavailable')
                    kc = s.orig_mc
                    swap_locks(kc)
                else:
                    kc = lru
                    swap_locks(kc)
                    s.bind_mc(kc)
            else:
                kc = s.orig_mc
                swap_locks(kc)

            def make_call(op, T):
                H = tg.build_handlers(op['custom'])
                if op['op'] == 'lookup':
                    def call():
                        conv = conv_mod.make_converter(T, conv_mod.ConverterHandlers.make(H))
                        return [type(conv).__name__, conv.expected(), conv.expected(True)]
                    return call
                if op['op'] == 'serialise':
                    x = t_insts[op['inst']]
                    if op['mode'] == 'infer':
                        return lambda: pane.into_data(x, custom=H)
                    if op['mode'] == 'typed':
                        return lambda: pane.into_data(x, T, custom=H)
                    return lambda: pane.convert(x, T, custom=H)
                data = tg.dec(op['data'])
                return lambda: pane.from_data(data, T, custom=H)

            def fp_of(fn):
                try:
                    return ['ok', fp_value(fn())]
                except BaseException as e:  # noqa
                    if isinstance(e, (SystemExit, KeyboardInterrupt, HarnessError)):
                        raise
                    return fp_exception(e)

            def get_T(op):
                if op['op'] == 'inline':
                    try:
                        return tg.build(op['t'], world)
                    except HarnessError:
                        raise
                    except Exception:
                        return None
                return world.refs.get(op['root'])

            # reference outcomes: the same calls made one after another, single-threaded, with memoisation
            # bypassed, on freshly defined type objects in a process that has not run anything else (so that
            # computing the reference cannot pre-initialise any lazily built state the threads will race on)
            expected.extend(pristine_srv.call({'many': True, 'plan_stub': {'prop': PROP, 'seed': plan['seed'], 'cls': 'norecycle',
                                               'knobs': {'p_recycle': 0.0, 'lru': None}, 'ops': []},
                                               'setup': plan['setup'], 'threads': plan['threads']}))

            def body(ops, out):
                def run():
                    for op in ops:
                        if op['op'] == 'gc':
                            gc.collect()
                            out.append(None)
                            continue
                        T = get_T(op)
                        if T is None or (op['op'] == 'serialise' and op['inst'] not in t_insts):
                            out.append(None)
                            continue
                        out.append(fp_of(make_call(op, T)))
                        T = None
                return run
            for ops in plan['threads']:
                out = []
                results.append(out)
                sched.spawn(body(ops, out))
        try:
            sched.run()
        except Deadlock as e:
            violation = {'kind': 'deadlock', 'detail': str(e)}
        except StepLimit:
            # a step cap bounds the run; it is not evidence of anything (a long conversion under a wide trace
            # scope can legitimately need more steps): the run is inconclusive and is only counted
            count('step_limit_hit')
            inconclusive = True
        trace.add('schedule', len(sched.schedule_out), h64(canon(sched.schedule_out)) % 10**12, sched.switches)
        count('sched_steps', sched.steps)
        count('context_switches', sched.switches)
        locks = [getattr(kc, '_lock', None)] if kc is not None else []
        for lk in locks:
            if isinstance(lk, SimRLock):
                count('lock_contended', lk.contended)
                count('lock_acquisitions', lk.acquisitions)
        if violation is None and not inconclusive:
            for ti, t in enumerate(sched.threads):
                if t.exc is not None:
                    violation = {'kind': 'exception_escaped', 'detail': f"thread {ti}: {type(t.exc).__name__}: {mask(str(t.exc))[:200]}"}
                    break
        if violation is None and not inconclusive:
            for ti, (got, exp) in enumerate(zip(results, expected)):
                trace.add('thread', ti, [h64(canon(order_free(g))) % 10**9 if g is not None else None for g in got])
                if len(got) != len(exp):
                    violation = {'kind': 'no_progress', 'detail': f"thread {ti} finished {len(got)} of {len(exp)} calls"}
                    break
                for ci, (g, e) in enumerate(zip(got, exp)):
                    if g is None or e is None:
                        continue          # the operation could not be set up on one side (failed definition): not judged
                    if g != e:
                        violation = {'kind': 'schedule_dependent',
                                     'detail': f"thread {ti} call {ci}: under this interleaving {Exec._short(g)} but freshly built {Exec._short(e)}"}
                        break
                if violation:
                    break
        if violation is None and kc is not None and not inconclusive:
            try:
                _check_kc_invariants(kc, count)
            except Violation as v:
                violation = {'kind': v.kind, 'detail': v.detail}
    finally:
        if pristine_srv is not None:
            pristine_srv.close()
        for (obj, name, val) in swapped + shadowed:
            try:
                setattr(obj, name, val)
            except (AttributeError, TypeError):
                pass
        alloc.active = False
        s.restore()
        world.clear()
        gc.enable()
    if violation is not None:
        violation.update({'op_index': 0, 'op': 'threads', 'signature': 'threads:' + violation['kind']})
        trace.add('violation', violation['kind'], violation['detail'])
    counters['sim_id_calls'] = alloc.calls
    res = {'digest': trace.digest(), 'violation': violation, 'counters': counters,
           'nontrivial': sched.switches > 0, 'nops': sum(len(x) for x in plan['threads']),
           'states': [h64('sched', canon(sched.schedule_out))], 'schedule_hash': h64('sched', canon(sched.schedule_out)),
           'schedule': sched.schedule_out}
    if want_trace:
        res['trace'] = trace.events + [('schedule_full', sched.schedule_out)]
    return res


def _check_kc_invariants(mc, count):
    cache = getattr(mc, 'cache', None)
    maxsize = getattr(mc, 'maxsize', None)
    if not isinstance(cache, dict) or maxsize is None:
        return
    if len(cache) > max(maxsize, 0):
        raise Violation('lru_oversize', f"LRU memo holds {len(cache)} entries, maxsize={maxsize}")
    root = getattr(mc, '_root', None)
    if not isinstance(root, list):
        return
    n = 0
    link = root[1]
    while link is not root:
        n += 1
        if n > len(cache) + 1:
            break
        if cache.get(link[2]) is not link:
            raise Violation('lru_corrupt', "LRU ring node's key does not map back to the node")
        link = link[1]
    if n != len(cache):
        raise Violation('lru_corrupt', f"LRU ring has {n} nodes but the dict has {len(cache)}")
    if len(cache) >= maxsize:
        count('lru_full_states')


# ---------------------------------------------------------------------------------------------
# minimisation

def shrink_candidates_threads(plan, res):
    from .shrink import clone, without
    th = plan['threads']
    # fewer threads
    if len(th) > 2:
        for i in range(len(th)):
            c = clone(plan)
            c['threads'] = without(th, {i})
            c.pop('schedule', None)
            yield c
    # fewer calls per thread
    for i, ops in enumerate(th):
        for j in range(len(ops)):
            if len(ops) > 1:
                c = clone(plan)
                c['threads'][i] = without(ops, {j})
                c.pop('schedule', None)
                yield c
    for j in range(len(plan.get('setup', []))):
        c = clone(plan)
        c['setup'] = without(plan['setup'], {j})
        c.pop('schedule', None)
        yield c
    # explicit schedule with fewer context switches: pin the recorded schedule, then merge stretches
    sch = plan.get('schedule') or res.get('schedule')
    if sch:
        if plan.get('schedule') is None:
            c = clone(plan)
            c['schedule'] = list(sch)
            yield c
        # replace a stretch by "keep running the thread that ran before it"
        i = 1
        while i < len(sch):
            if sch[i] != sch[i - 1]:
                j = i
                while j < len(sch) and sch[j] == sch[i]:
                    j += 1
                c = clone(plan)
                c['schedule'] = sch[:i] + [sch[i - 1]] * (j - i) + sch[j:]
                yield c
                c = clone(plan)
                c['schedule'] = sch[:i]
                yield c
                i = j
            else:
                i += 1
    if plan['knobs'].get('p_recycle'):
        c = clone(plan)
        c['knobs']['p_recycle'] = 0.0
        yield c


def shrink_candidates(plan, res):
    from .shrink import chunks_to_drop, clone, without
    if plan['cls'] in ('threads', 'threads_wide'):
        yield from shrink_candidates_threads(plan, res)
        return
    v = res.get('violation')
    ops = plan['ops']
    if v and v['op_index'] + 1 < len(ops):
        c = clone(plan)
        c['ops'] = ops[:v['op_index'] + 1]
        yield c
    for drop in chunks_to_drop(len(ops)):
        c = clone(plan)
        c['ops'] = without(ops, drop)
        yield c
    # collections injected inside calls: none if the failure survives, else one at a time
    if any('gc_at' in op for op in ops):
        c = clone(plan)
        for op in c['ops']:
            op.pop('gc_at', None)
        yield c
        for i, op in enumerate(ops):
            if 'gc_at' in op:
                c = clone(plan)
                del c['ops'][i]['gc_at']
                yield c
    # allocator: prefer "never recycle" if the failure survives; then deterministic recycling
    if plan['knobs'].get('p_recycle', 0) not in (0.0,):
        c = clone(plan)
        c['knobs']['p_recycle'] = 0.0
        yield c
        if plan['knobs']['p_recycle'] != 1.0:
            c = clone(plan)
            c['knobs']['p_recycle'] = 1.0
            yield c
    if plan['knobs'].get('lru'):
        c = clone(plan)
        c['knobs']['lru'] = None
        yield c
    if plan['knobs'].get('gc_eager'):
        c = clone(plan)
        c['knobs']['gc_eager'] = False
        yield c
    # simpler arguments
    for i, op in enumerate(ops):
        if op.get('custom') is not None:
            c = clone(plan)
            c['ops'][i]['custom'] = None
            yield c
        if 't' in op and op['op'] in ('build', 'inline'):
            for sub in _subexprs(op['t']):
                c = clone(plan)
                c['ops'][i]['t'] = sub
                yield c
        if 'data' in op:
            for d in (None, 0, 'a', [], [1]):
                if op['data'] != d:
                    c = clone(plan)
                    c['ops'][i]['data'] = d
                    yield c
        if op['op'] == 'defclass' and len(op['spec']['fields']) > 1:
            for j in range(len(op['spec']['fields'])):
                c = clone(plan)
                c['ops'][i]['spec']['fields'] = without(op['spec']['fields'], {j})
                yield c
        if op['op'] == 'defclass' and op['spec'].get('custom') is not None:
            c = clone(plan)
            c['ops'][i]['spec']['custom'] = None
            yield c
        if op['op'] == 'defclass' and op['spec'].get('opts'):
            c = clone(plan)
            c['ops'][i]['spec']['opts'] = {}
            yield c


def _subexprs(ast):
    if ast[0] in ('s', 'cls', 'enum', 'lit', 'ref', 'tv', 'tagged'):
        if ast != ['s', 'int']:
            yield ['s', 'int']
        return
    if ast[0] == 'dl':
        kids = [a for (_, a) in ast[1]]
    elif ast[0] == 'ann':
        kids = [ast[1]]
    elif ast[0] == 'gen':
        kids = ast[2:]
    else:
        kids = ast[1:]
    for k in kids:
        if isinstance(k, list):
            yield k
    yield ['s', 'int']
    # shrink one child in place
    if ast[0] not in ('dl', 'ann', 'gen'):
        for j, k in enumerate(kids):
            if isinstance(k, list) and k[0] not in ('s',):
                for sub in _subexprs(k):
                    yield [ast[0]] + kids[:j] + [sub] + kids[j + 1:]


# ---------------------------------------------------------------------------------------------
# configuration / evidence

ASSUMPTIONS = [
    "user handlers, conditions and __post_init__ hooks are pure functions of their arguments",
    "the global handler registry is configuration and is frozen for the duration of a run",
    "classes are not mutated after definition",
    "the allocator adversary is constrained only by the language guarantee on id(): constant during an object's lifetime, unique among simultaneously live objects",
    "typing's own conflation of equal-but-reordered unions inside typing aliases is invisible to the oracle (pane receives one object)",
]


def tier_config(tier):
    if tier == 'quick':
        return {'classes': [('norecycle', 1500), ('recycle', 2500), ('lru', 1000), ('threads', 2500)], 'chunk': 25, 'selftest_n': 200,
                'sample': 1, 'hang_s': 240}
    return {'classes': [('norecycle', 3000), ('recycle', 5000), ('lru', 2000), ('threads', 6000), ('long', 600), ('threads_wide', 1200)],
            'chunk': 25, 'selftest_n': 600,
            'sample': 1, 'hang_s': 900, 'repeat': True, 'budget_s': 900}


def coverage(agg, conf):
    c = agg['counters']
    cov = {
        'evaluations': agg['evaluations'],
        'distinct_nontrivial': len(agg['nontrivial_digests']),
        'distinct_digests': len(agg['digests']),
        'rule': ("a run = seeded history of <= 40 operations (define class/enum, build type, convert, inline "
                 "convert of a temporary type, converter lookup, serialise/convert kept instances, subscript a generic "
                 "dataclass, drop a root, collect garbage - between calls or at a chosen line inside one -, evict typing's caches, arm a handler fault) executed against "
                 "the real pane memo with `id`, gc, typing caches, LRU size and handler faults behind seams; every "
                 "observable outcome is compared with the same call with memoisation bypassed, on freshly defined type objects and (sampled) in a pristine forked process; distinct = distinct run "
                 "digest; non-trivial = the run recycled at least one address, ran with a full LRU memo, fired a handler "
                 "fault, mutated a handler dict, hit the equal-but-reordered subscript case, or (thread runs) had at least one "
                 "context switch"),
        'samples': agg['samples'][:3],
        'distinct_thread_schedules': len(agg.get('schedules', ())),
        'states': len(agg['states']),
        'states_measure': 'distinct (memo size, live roots, free addresses, live allocator entries, kept instances) tuples after an operation, plus distinct complete thread schedules',
        'faults_fired': {
            'address_recycled': c.get('address_recycled', 0),
            'type_died (refcount / weakref)': c.get('type_died', 0),
            'type_died_gc': c.get('type_died_gc', 0),
            'typing_evicted_alias_died': c.get('typing_evicted_alias_died', 0),
            'handler_fault_fired': c.get('handler_fault_fired', 0),
            'lru_full_states': c.get('lru_full_states', 0),
            'gc_inside_call (collection injected at the k-th line of a call)': c.get('gc_inside_call', 0),
            'type_died_inside_call': c.get('type_died_inside_call', 0),
            'thread_context_switches': c.get('context_switches', 0),
        },
        'reach_probes': dict(sorted(c.items())),
        'components': {
            'real': ['pane (from /repo working tree): make_converter, KeyCache (unbounded and LRU), converters, dataclasses, _make_subclass',
                     'typing caches', 'CPython reference counting and cyclic gc (automatic collection off; collections are explicit operations or injected at a chosen line inside a call)',
                     'real threading.Thread objects (released one at a time by the baton scheduler)'],
            'stub': ['id() inside pane modules (sim_id)', 'locks created by / found on the memo object (SimRLock)',
                     'the choice of which thread runs (scheduler, sys.settrace line events in pane/util.py and pane/convert.py)',
                     'user handlers / types (workload)'],
        },
    }
    cov.update(agg.get('extra', {}))
    return cov


def execute_isolated(plan, want_trace=False):
    from .kernel import run_isolated
    return run_isolated(execute, plan, want_trace)
