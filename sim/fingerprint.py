"""Deterministic deep fingerprints of observable outcomes (values with exact types, errors)."""
from __future__ import annotations

import re

_ADDR = re.compile(r'0x[0-9a-fA-F]+')


def mask(s: str) -> str:
    return _ADDR.sub('0x?', s)


def fp_value(v, depth=0):
    """(exact type name, structure) recursively; sets order-normalised."""
    if depth > 12:
        return ['deep', mask(repr(v))]
    tn = type(v).__name__
    if v is None or isinstance(v, (bool, int, str)):
        if type(v) not in (bool, int, str, type(None)):
            v = int(v) if isinstance(v, int) else str.__str__(v)      # instances of user subclasses: plain data in the fingerprint
        if isinstance(v, int) and abs(v) >= 2**53:
            return [tn, hex(v) if abs(v) >= 10**400 else str(v)]      # no decimal digit limit on hex()
        return [tn, v]
    if isinstance(v, float):
        return [tn, repr(v)]
    if isinstance(v, (bytes, bytearray)):
        return [tn, bytes(v).hex()]
    if isinstance(v, (list, tuple)):
        return [tn, [fp_value(x, depth + 1) for x in v]]
    if isinstance(v, (set, frozenset)):
        items = [fp_value(x, depth + 1) for x in v]
        return [tn, sorted(items, key=lambda x: repr(x))]
    if isinstance(v, dict):
        return [tn, [[fp_value(k, depth + 1), fp_value(x, depth + 1)] for (k, x) in v.items()]]
    info = getattr(type(v), '__pane_info__', None)
    if info is not None:
        fields = []
        for f in info.fields:
            try:
                fields.append([f.name, fp_value(getattr(v, f.name), depth + 1)])
            except AttributeError:
                fields.append([f.name, ['<unset>']])
        try:
            setf = sorted(getattr(v, '__pane_set__'))
        except AttributeError:
            setf = None
        origin = type(v).__dict__.get('__origin__', None)
        return ['pane:' + tn, fields, setf, getattr(origin, '__name__', None)]
    mod = getattr(type(v), '__module__', '') or ''
    d = getattr(v, '__dict__', None)
    if isinstance(d, dict) and (mod.startswith('pane') or mod.startswith('sim')) and not isinstance(v, type):
        # e.g. pane.types.ValueOrList: its repr embeds the repr of a possibly set-valued payload,
        # whose order depends on PYTHONHASHSEED - fingerprint the attributes structurally instead
        return ['obj:' + tn, [[k, fp_value(x, depth + 1)] for (k, x) in sorted(d.items())]]
    import fractions
    if isinstance(v, fractions.Fraction) and max(abs(v.numerator), v.denominator) >= 10**400:
        return [tn, hex(v.numerator), hex(v.denominator)]
    try:
        return [tn, mask(repr(v))]
    except ValueError as e:      # e.g. the interpreter's int -> str digit limit inside a repr
        return [tn, '<repr failed: ' + mask(str(e))[:80] + '>']


def fp_outcome(fn):
    """Run fn(); return a JSON-able fingerprint of its outcome."""
    try:
        r = fn()
    except BaseException as e:  # noqa
        if isinstance(e, (KeyboardInterrupt, SystemExit)):
            raise
        return fp_exception(e)
    return ['ok', fp_value(r)]


def fp_exception(e):
    from pane.errors import ConvertError
    if isinstance(e, ConvertError):
        try:
            txt = str(e)
        except Exception as e2:  # rendering failure is C08's business; record it verbatim
            txt = f"<render failed: {type(e2).__name__}>"
        return ['ConvertError', mask(_norm_sets(txt))]
    return ['exc', type(e).__name__, mask(str(e))]


def _norm_sets(txt: str) -> str:
    """
    Error rendering iterates sets of field names ('Missing required field', 'Unexpected field');
    sort runs of such consecutive lines so the fingerprint does not depend on PYTHONHASHSEED.
    """
    lines = txt.split('\n')
    out = []
    run = []
    runkind = None

    def flush():
        nonlocal run, runkind
        out.extend(sorted(run))
        run = []
        runkind = None
    for ln in lines:
        s = ln.strip()
        kind = 'm' if s.startswith('Missing required field') else 'e' if s.startswith('Unexpected field') else None
        if kind is None:
            flush()
            out.append(ln)
        else:
            if runkind not in (None, kind):
                flush()
            runkind = kind
            run.append(ln)
    flush()
    return '\n'.join(out)


def order_free(fp):
    """Hash-seed independent view of a fingerprint (for run digests only, never for the oracle):
    every list is replaced by the sorted list of its normalised children, because a list that pane
    derived from a set carries the set's iteration order."""
    if isinstance(fp, list):
        kids = [order_free(x) for x in fp]
        import json
        return sorted(kids, key=lambda k: json.dumps(k, sort_keys=True, default=str))
    if isinstance(fp, str) and '{' in fp:
        # error texts quote offending values; a quoted set/dict of strings prints in hash order
        return _BRACES.sub(lambda m: '{' + ', '.join(sorted(x.strip() for x in m.group(1).split(','))) + '}', fp)
    return fp


_BRACES = re.compile(r'\{([^{}]*)\}')
