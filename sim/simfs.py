"""
Simulated file system and caller streams for the C19 simulation.

The *real* io.TextIOWrapper / BufferedWriter / BufferedReader / BufferedRandom run on top of a
simulated raw device (SimRaw) whose write/readinto/close consult a fault plan.  `sim_open` has the
signature of the builtin `open` and is injected as a module global `open` into pane.io.
"""
from __future__ import annotations

import codecs
import errno
import io
import os


class Fault:
    """
    One armed fault.
      where: 'raw_write' | 'raw_read' | 'open' | 'stream_write' | 'stream_read'
      kind : 'ENOSPC' | 'EIO' | 'short' | 'ENOENT' | 'EACCES' | 'EISDIR'
      k    : fire on the k-th matching call (1-based) counted from arming
      sticky: keep failing on every later call too (full disk stays full)
    """
    __slots__ = ('where', 'kind', 'k', 'sticky', 'calls', 'fired', 'excs')

    def __init__(self, where, kind, k, sticky=False):
        self.where, self.kind, self.k, self.sticky = where, kind, k, sticky
        self.calls = 0
        self.fired = 0
        self.excs = []

    def hit(self) -> bool:
        self.calls += 1
        if self.calls == self.k or (self.sticky and self.calls > self.k):
            self.fired += 1
            return True
        return False

    def make_exc(self, what):
        code = {'ENOSPC': errno.ENOSPC, 'EIO': errno.EIO, 'ENOENT': errno.ENOENT, 'EACCES': errno.EACCES,
                'EISDIR': errno.EISDIR}[self.kind]
        cls = {'ENOENT': FileNotFoundError, 'EACCES': PermissionError, 'EISDIR': IsADirectoryError}.get(self.kind, OSError)
        e = cls(code, f"injected {self.kind} on {what}")
        self.excs.append(e)
        return e

    def to_json(self):
        return {'where': self.where, 'kind': self.kind, 'k': self.k, 'sticky': self.sticky}


class OpenRec:
    """What pane asked `open` for, and what became of the handle."""
    __slots__ = ('path', 'mode', 'encoding', 'newline', 'errors', 'buffering', 'raw', 'text', 'op_index')

    def __init__(self, path, mode, encoding, newline, errors, buffering, op_index):
        self.path, self.mode, self.encoding, self.newline = path, mode, encoding, newline
        self.errors, self.buffering = errors, buffering
        self.raw = None
        self.text = 'b' not in mode
        self.op_index = op_index

    @property
    def closed(self):
        return self.raw is None or self.raw.closed


class SimRaw(io.RawIOBase):
    def __init__(self, fs, data: bytearray, readable, writable, append=False, name='<sim>'):
        super().__init__()
        self.fs = fs
        self.data = data
        self._readable, self._writable = readable, writable
        self.pos = len(data) if append else 0
        self.append = append
        self.name = name
        self.n_writes = 0
        self.n_reads = 0
        self.close_calls = 0

    def readable(self):
        return self._readable

    def writable(self):
        return self._writable

    def seekable(self):
        return True

    def seek(self, off, whence=0):
        if whence == 0:
            self.pos = off
        elif whence == 1:
            self.pos += off
        else:
            self.pos = len(self.data) + off
        if self.pos < 0:
            self.pos = 0
        return self.pos

    def tell(self):
        return self.pos

    def truncate(self, size=None):
        if size is None:
            size = self.pos
        del self.data[size:]
        return size

    def write(self, b):
        if self.closed:
            raise ValueError("write to closed file")
        if not self._writable:
            raise io.UnsupportedOperation("not writable")
        b = bytes(b)
        self.n_writes += 1
        fs = self.fs
        fs.counters['raw_writes'] += 1
        n = len(b)
        for f in fs.active_faults('raw_write'):
            if n and f.hit():
                fs.note_fired(f, self)
                if f.kind == 'short':
                    n = max(1, min(n - 1, fs.short_len)) if n > 1 else n
                else:
                    raise f.make_exc('raw write')
        if self.append:
            self.pos = len(self.data)
        if self.pos > len(self.data):
            self.data.extend(b'\0' * (self.pos - len(self.data)))
        self.data[self.pos:self.pos + n] = b[:n]
        self.pos += n
        return n

    def readinto(self, buf):
        if self.closed:
            raise ValueError("read of closed file")
        if not self._readable:
            raise io.UnsupportedOperation("not readable")
        self.n_reads += 1
        fs = self.fs
        fs.counters['raw_reads'] += 1
        n = min(len(buf), len(self.data) - self.pos, fs.read_chunk)
        n = max(n, 0)
        for f in fs.active_faults('raw_read'):
            if n and f.hit():
                fs.note_fired(f, self)
                if f.kind == 'short':
                    n = 1
                else:
                    raise f.make_exc('raw read')
        buf[:n] = self.data[self.pos:self.pos + n]
        self.pos += n
        return n

    def close(self):
        self.close_calls += 1
        super().close()


class SimFS:
    def __init__(self, knobs):
        self.files = {}            # path(str) -> bytearray
        self.opens = []            # all OpenRec of the run
        self.knobs = knobs
        self.buffer_size = knobs.get('buffer_size', 8192)
        self.write_through = knobs.get('write_through', False)
        self.line_buffering = knobs.get('line_buffering', False)
        self.read_chunk = knobs.get('read_chunk', 1 << 20)
        self.short_len = knobs.get('short_len', 3)
        self.default_encoding = knobs.get('default_encoding', 'ascii')
        self.faults = []           # faults armed for the current operation
        self.fired = []            # (fault, target) fired during current op
        self.op_index = -1
        self.counters = {'raw_writes': 0, 'raw_reads': 0, 'opens': 0}

    # -- fault plumbing
    def arm(self, faults):
        self.faults = list(faults)
        self.fired = []

    def disarm(self):
        self.faults = []

    def active_faults(self, where):
        return [f for f in self.faults if f.where == where]

    def note_fired(self, f, target):
        self.fired.append((f, target))

    # -- the `open` seam
    def open(self, file, mode='r', buffering=-1, encoding=None, errors=None, newline=None,
             closefd=True, opener=None):
        path = os.fspath(file)
        if isinstance(path, bytes):
            path = path.decode()
        rec = OpenRec(path, mode, encoding, newline, errors, buffering, self.op_index)
        self.counters['opens'] += 1
        for f in self.active_faults('open'):
            if f.hit():
                self.note_fired(f, None)
                self.opens.append(rec)
                raise f.make_exc(f"open({path!r})")
        m = set(mode)
        if not m <= set('rwxabt+') or len(m & set('rwxa')) != 1:
            raise ValueError(f"invalid mode: {mode!r}")
        binary = 'b' in m
        if binary and (encoding is not None or newline is not None):
            raise ValueError("binary mode doesn't take an encoding/newline argument")
        creating = 'w' in m or 'x' in m or 'a' in m
        if 'x' in m and path in self.files:
            raise FileExistsError(errno.EEXIST, 'File exists', path)
        if not creating and path not in self.files:
            self.opens.append(rec)
            raise FileNotFoundError(errno.ENOENT, 'No such file or directory', path)
        if 'w' in m:
            self.files[path] = bytearray()
        data = self.files.setdefault(path, bytearray())
        readable = 'r' in m or '+' in m
        writable = creating or '+' in m
        raw = SimRaw(self, data, readable, writable, append='a' in m, name=path)
        rec.raw = raw
        self.opens.append(rec)
        bs = self.buffer_size if buffering in (-1, None) or buffering < 0 else buffering
        if readable and writable:
            buf = io.BufferedRandom(raw, buffer_size=max(bs, 1))
        elif writable:
            buf = io.BufferedWriter(raw, buffer_size=max(bs, 1))
        else:
            buf = io.BufferedReader(raw, buffer_size=max(bs, 1))
        if binary:
            return buf
        enc = encoding if encoding is not None else self.default_encoding
        return io.TextIOWrapper(buf, encoding=enc, errors=errors, newline=newline,
                                line_buffering=self.line_buffering, write_through=self.write_through)

    def open_handles(self):
        return [r for r in self.opens if r.raw is not None and not r.raw.closed]


def norm_encoding(enc):
    if enc is None:
        return None
    try:
        return codecs.lookup(enc).name
    except LookupError:
        return str(enc)


class FaultyStringIO(io.StringIO):
    """A caller-owned in-memory text stream whose write/read can be made to fail."""

    def __init__(self, fs):
        super().__init__()
        self._fs = fs

    def write(self, s):
        for f in self._fs.active_faults('stream_write'):
            if f.hit():
                self._fs.note_fired(f, self)
                if f.kind == 'short':
                    continue
                raise f.make_exc('stream write')
        return super().write(s)

    def read(self, *a):
        for f in self._fs.active_faults('stream_read'):
            if f.hit():
                self._fs.note_fired(f, self)
                if f.kind == 'short':
                    continue
                raise f.make_exc('stream read')
        return super().read(*a)


def make_caller_wrapper(fs: SimFS, encoding, newline, buffer_size=None):
    """A caller-owned TextIOWrapper over a simulated raw device (read+write)."""
    data = bytearray()
    raw = SimRaw(fs, data, True, True, name='<caller>')
    buf = io.BufferedRandom(raw, buffer_size=max(buffer_size or fs.buffer_size, 1))
    w = io.TextIOWrapper(buf, encoding=encoding, newline=newline, write_through=fs.write_through)
    return w, raw
