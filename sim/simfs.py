"""
Simulated file system and caller streams for the C19 simulation.

The *real* io.TextIOWrapper / BufferedWriter / BufferedReader / BufferedRandom run on top of a
simulated raw device (SimRaw) whose write/readinto/close consult a fault plan.  `sim_open` has the
signature of the builtin `open` and is injected as a module global `open` into pane.io.
"""
from __future__ import annotations

import codecs
import errno
import io
import os


class Fault:
    """
    One armed fault.
      where: 'raw_write' | 'raw_read' | 'open' | 'stream_write' | 'stream_read'
      kind : 'ENOSPC' | 'EIO' | 'short' | 'ENOENT' | 'EACCES' | 'EISDIR'
      k    : fire on the k-th matching call (1-based) counted from arming
      sticky: keep failing on every later call too (full disk stays full)
    """
    __slots__ = ('where', 'kind', 'k', 'sticky', 'calls', 'fired', 'excs')

    def __init__(self, where, kind, k, sticky=False):
        self.where, self.kind, self.k, self.sticky = where, kind, k, sticky
        self.calls = 0
        self.fired = 0
        self.excs = []

    def hit(self) -> bool:
        self.calls += 1
        if self.calls == self.k or (self.sticky and self.calls > self.k):
            self.fired += 1
            return True
        return False

    def make_exc(self, what):
        if self.kind not in ('ENOSPC', 'EIO', 'ENOENT', 'EACCES', 'EISDIR'):
            from .kernel import HarnessError
            raise HarnessError(f"fault kind {self.kind!r} has no exception (where={self.where})")
        code = {'ENOSPC': errno.ENOSPC, 'EIO': errno.EIO, 'ENOENT': errno.ENOENT, 'EACCES': errno.EACCES,
                'EISDIR': errno.EISDIR}[self.kind]
        cls = {'ENOENT': FileNotFoundError, 'EACCES': PermissionError, 'EISDIR': IsADirectoryError}.get(self.kind, OSError)
        e = cls(code, f"injected {self.kind} on {what}")
        self.excs.append(e)
        return e

    def to_json(self):
        return {'where': self.where, 'kind': self.kind, 'k': self.k, 'sticky': self.sticky}


class OpenRec:
    """What pane asked `open` for, and what became of the handle."""
    __slots__ = ('path', 'mode', 'encoding', 'newline', 'errors', 'buffering', 'raw', 'text', 'op_index')

    def __init__(self, path, mode, encoding, newline, errors, buffering, op_index):
        self.path, self.mode, self.encoding, self.newline = path, mode, encoding, newline
        self.errors, self.buffering = errors, buffering
        self.raw = None
        self.text = 'b' not in mode
        self.op_index = op_index

    @property
    def closed(self):
        return self.raw is None or self.raw.closed


class SimRawFile(io.RawIOBase):
    """
    Faulting raw device backed by a real file in the run's scratch directory: everything else pane (or a
    future implementation of it) may do to the path - os.replace, os.remove, tempfile siblings, fsync -
    keeps working on the real file system, while every raw read/write issued through the `open` seam
    consults the fault plan.
    """

    def __init__(self, fs, path, mode, name, closefd=True, opener=None):
        super().__init__()
        self.fs = fs
        self.inner = io.FileIO(path, mode, closefd=closefd, opener=opener)
        self.name = name
        self.mode = self.inner.mode
        self.n_writes = 0
        self.n_reads = 0
        self.close_calls = 0

    def readable(self):
        return self.inner.readable()

    def writable(self):
        return self.inner.writable()

    def seekable(self):
        return True

    def fileno(self):
        return self.inner.fileno()

    def isatty(self):
        return False

    def seek(self, off, whence=0):
        return self.inner.seek(off, whence)

    def tell(self):
        return self.inner.tell()

    def truncate(self, size=None):
        return self.inner.truncate(size)

    def write(self, b):
        if self.closed:
            raise ValueError("write to closed file")
        b = bytes(b)
        self.n_writes += 1
        fs = self.fs
        fs.counters['raw_writes'] += 1
        n = len(b)
        for f in fs.active_faults('raw_write'):
            if n and f.hit():
                fs.note_fired(f, self)
                if f.kind == 'short':
                    n = max(1, min(n - 1, fs.short_len)) if n > 1 else n
                elif f.kind == 'EINTR':
                    # a signal arrived: legal, the buffered layer re-issues the call (PEP 475)
                    raise InterruptedError(errno.EINTR, 'injected EINTR on raw write')
                else:
                    raise f.make_exc('raw write')
        return self.inner.write(b[:n])

    def readinto(self, buf):
        if self.closed:
            raise ValueError("read of closed file")
        self.n_reads += 1
        fs = self.fs
        fs.counters['raw_reads'] += 1
        n = min(len(buf), fs.read_chunk)
        for f in fs.active_faults('raw_read'):
            if n and f.hit():
                fs.note_fired(f, self)
                if f.kind == 'short':
                    n = 1
                elif f.kind == 'EINTR':
                    raise InterruptedError(errno.EINTR, 'injected EINTR on raw read')
                else:
                    raise f.make_exc('raw read')
        data = self.inner.read(n)
        if data is None:
            return None
        buf[:len(data)] = data
        return len(data)

    def close(self):
        self.close_calls += 1
        try:
            self.inner.close()
        finally:
            super().close()


class SimRaw(io.RawIOBase):
    def __init__(self, fs, data: bytearray, readable, writable, append=False, name='<sim>'):
        super().__init__()
        self.fs = fs
        self.data = data
        self._readable, self._writable = readable, writable
        self.pos = len(data) if append else 0
        self.append = append
        self.name = name
        self.n_writes = 0
        self.n_reads = 0
        self.close_calls = 0

    def readable(self):
        return self._readable

    def writable(self):
        return self._writable

    def seekable(self):
        return True

    def seek(self, off, whence=0):
        if whence == 0:
            self.pos = off
        elif whence == 1:
            self.pos += off
        else:
            self.pos = len(self.data) + off
        if self.pos < 0:
            self.pos = 0
        return self.pos

    def tell(self):
        return self.pos

    def truncate(self, size=None):
        if size is None:
            size = self.pos
        del self.data[size:]
        return size

    def write(self, b):
        if self.closed:
            raise ValueError("write to closed file")
        if not self._writable:
            raise io.UnsupportedOperation("not writable")
        b = bytes(b)
        self.n_writes += 1
        fs = self.fs
        fs.counters['raw_writes'] += 1
        n = len(b)
        for f in fs.active_faults('raw_write'):
            if n and f.hit():
                fs.note_fired(f, self)
                if f.kind == 'short':
                    n = max(1, min(n - 1, fs.short_len)) if n > 1 else n
                elif f.kind == 'EINTR':
                    raise InterruptedError(errno.EINTR, 'injected EINTR on raw write')
                else:
                    raise f.make_exc('raw write')
        if self.append:
            self.pos = len(self.data)
        if self.pos > len(self.data):
            self.data.extend(b'\0' * (self.pos - len(self.data)))
        self.data[self.pos:self.pos + n] = b[:n]
        self.pos += n
        return n

    def readinto(self, buf):
        if self.closed:
            raise ValueError("read of closed file")
        if not self._readable:
            raise io.UnsupportedOperation("not readable")
        self.n_reads += 1
        fs = self.fs
        fs.counters['raw_reads'] += 1
        n = min(len(buf), len(self.data) - self.pos, fs.read_chunk)
        n = max(n, 0)
        for f in fs.active_faults('raw_read'):
            if n and f.hit():
                fs.note_fired(f, self)
                if f.kind == 'short':
                    n = 1
                elif f.kind == 'EINTR':
                    raise InterruptedError(errno.EINTR, 'injected EINTR on raw read')
                else:
                    raise f.make_exc('raw read')
        buf[:n] = self.data[self.pos:self.pos + n]
        self.pos += n
        return n

    def close(self):
        self.close_calls += 1
        super().close()


class SimFS:
    def __init__(self, knobs):
        self.opens = []            # all OpenRec of the run
        self.knobs = knobs
        self.buffer_size = knobs.get('buffer_size', 8192)
        self.write_through = knobs.get('write_through', False)
        self.line_buffering = knobs.get('line_buffering', False)
        self.read_chunk = knobs.get('read_chunk', 1 << 20)
        self.short_len = knobs.get('short_len', 3)
        self.default_encoding = knobs.get('default_encoding', 'ascii')
        self.faults = []           # faults armed for the current operation
        self.fired = []            # (fault, target) fired during current op
        self.op_index = -1
        self.counters = {'raw_writes': 0, 'raw_reads': 0, 'opens': 0}

    # -- fault plumbing
    def arm(self, faults):
        self.faults = list(faults)
        self.fired = []

    def disarm(self):
        self.faults = []

    def active_faults(self, where):
        return [f for f in self.faults if f.where == where]

    def note_fired(self, f, target):
        self.fired.append((f, target))

    # -- the `open` seam
    def open(self, file, mode='r', buffering=-1, encoding=None, errors=None, newline=None,
             closefd=True, opener=None):
        if isinstance(file, int):
            # the builtin accepts an already open descriptor (e.g. from tempfile.mkstemp): so does the seam
            try:
                path = os.readlink(f'/proc/self/fd/{file}')
            except OSError:
                path = f'<fd {file}>'
            target = file
        else:
            path = os.fspath(file)
            if isinstance(path, bytes):
                path = path.decode()
            target = path                       # opened exactly as given: which file a spelling denotes is the kernel's
            path = os.path.abspath(path)        # business ('symlink/..' is not a lexical matter); this is for the record only
        rec = OpenRec(path, mode, encoding, newline, errors, buffering, self.op_index)
        self.counters['opens'] += 1
        for f in self.active_faults('open'):
            if f.hit():
                self.note_fired(f, None)
                self.opens.append(rec)
                raise f.make_exc(f"open({os.path.basename(path)!r})")
        m = set(mode)
        if not m <= set('rwxabt+') or len(m & set('rwxa')) != 1:
            raise ValueError(f"invalid mode: {mode!r}")
        binary = 'b' in m
        if binary and (encoding is not None or newline is not None):
            raise ValueError("binary mode doesn't take an encoding/newline argument")
        creating = 'w' in m or 'x' in m or 'a' in m
        readable = 'r' in m or '+' in m
        writable = creating or '+' in m
        rawmode = ''.join(c for c in 'rwxa' if c in m) + ('+' if '+' in m else '')
        self.opens.append(rec)
        raw = SimRawFile(self, target, rawmode, os.path.basename(path), closefd=closefd, opener=opener)   # raises like the real open does
        rec.raw = raw
        bs = self.buffer_size if buffering in (-1, None) or buffering < 0 else buffering
        if readable and writable:
            buf = io.BufferedRandom(raw, buffer_size=max(bs, 1))
        elif writable:
            buf = io.BufferedWriter(raw, buffer_size=max(bs, 1))
        else:
            buf = io.BufferedReader(raw, buffer_size=max(bs, 1))
        if binary:
            return buf
        enc = encoding if encoding is not None else self.default_encoding
        return io.TextIOWrapper(buf, encoding=enc, errors=errors, newline=newline,
                                line_buffering=self.line_buffering, write_through=self.write_through)

    def open_handles(self):
        return [r for r in self.opens if r.raw is not None and not r.raw.closed]


def norm_encoding(enc):
    if enc is None:
        return None
    try:
        return codecs.lookup(enc).name
    except LookupError:
        return str(enc)


class FaultyStringIO(io.StringIO):
    """A caller-owned in-memory text stream whose write/read can be made to fail."""

    def __init__(self, fs):
        super().__init__()
        self._fs = fs

    def write(self, s):
        for f in self._fs.active_faults('stream_write'):
            if f.hit():
                self._fs.note_fired(f, self)
                if f.kind == 'short':
                    continue
                raise f.make_exc('stream write')
        return super().write(s)

    def read(self, *a):
        for f in self._fs.active_faults('stream_read'):
            if f.hit():
                self._fs.note_fired(f, self)
                if f.kind == 'short':
                    continue
                raise f.make_exc('stream read')
        return super().read(*a)


def make_caller_wrapper(fs: SimFS, encoding, newline, buffer_size=None):
    """A caller-owned TextIOWrapper over a simulated raw device (read+write)."""
    data = bytearray()
    raw = SimRaw(fs, data, True, True, name='<caller>')
    buf = io.BufferedRandom(raw, buffer_size=max(buffer_size or fs.buffer_size, 1))
    w = io.TextIOWrapper(buf, encoding=encoding, newline=newline, write_through=fs.write_through)
    return w, raw


class ChunkyText(io.TextIOBase):
    """
    A caller-owned text stream that is neither a StringIO nor a TextIOWrapper (think: a stream over a
    socket, a decompressor or a line producer).  read(n) returns at most `chunk` characters even when
    more follow - which io.TextIOBase allows: only '' means end of stream.
    """

    def __init__(self, fs, chunk):
        super().__init__()
        self._fs = fs
        self._buf = io.StringIO()
        self._chunk = max(1, chunk)
        self.short_reads = 0

    def readable(self):
        return True

    def writable(self):
        return True

    def seekable(self):
        return True

    def read(self, size=-1):
        self._checkClosed()
        if size is None or size < 0:
            return self._buf.read()
        n = min(size, self._chunk)
        out = self._buf.read(n)
        if n < size and len(out) == n:
            self.short_reads += 1
            self._fs.counters['text_short_reads'] = self._fs.counters.get('text_short_reads', 0) + 1
        return out

    def readline(self, size=-1):
        self._checkClosed()
        return self._buf.readline(size)

    def write(self, s):
        self._checkClosed()
        return self._buf.write(s)

    def seek(self, off, whence=0):
        self._checkClosed()
        return self._buf.seek(off, whence)

    def tell(self):
        return self._buf.tell()

    def truncate(self, size=None):
        return self._buf.truncate(size)

    def flush(self):
        pass

    def getvalue(self):
        return self._buf.getvalue()


class PipeText(io.TextIOBase):
    """
    The write end of a caller-owned, non-seekable text stream (think: sys.stdout, a pipe, a socket file): writable,
    not readable, `seek` / `tell` / `truncate` raise io.UnsupportedOperation.  The harness looks at what went through
    with getvalue(), starts a new pipe with reset(), and hands pane the matching read end with reader().
    """

    def __init__(self, fs, chunk):
        super().__init__()
        self._fs = fs
        self._parts = []
        self._chunk = max(1, chunk)

    def readable(self):
        return False

    def writable(self):
        return True

    def seekable(self):
        return False

    def isatty(self):
        return False

    def write(self, s):
        self._checkClosed()
        if not isinstance(s, str):
            raise TypeError(f"string argument expected, got {type(s).__name__!r}")
        for f in self._fs.active_faults('stream_write'):
            if f.hit():
                self._fs.note_fired(f, self)
                if f.kind == 'short':
                    continue
                raise f.make_exc('stream write')
        self._parts.append(s)
        return len(s)

    def read(self, *a):
        raise io.UnsupportedOperation('not readable')

    def readline(self, *a):
        raise io.UnsupportedOperation('not readable')

    def seek(self, *a):
        raise io.UnsupportedOperation('underlying stream is not seekable')

    def tell(self):
        raise io.UnsupportedOperation('underlying stream is not seekable')

    def truncate(self, *a):
        raise io.UnsupportedOperation('underlying stream is not seekable')

    def flush(self):
        self._checkClosed()

    # -- harness side
    def getvalue(self):
        return ''.join(self._parts)

    def reset(self):
        self._parts = []

    def reader(self):
        return PipeReader(self._fs, self.getvalue(), self._chunk)


class PipeReader(io.TextIOBase):
    """The read end: readable only, not seekable, read(n) returns at most `chunk` characters at a time."""

    def __init__(self, fs, text, chunk):
        super().__init__()
        self._fs = fs
        self._buf = io.StringIO(text)
        self._chunk = max(1, chunk)

    def readable(self):
        return True

    def writable(self):
        return False

    def seekable(self):
        return False

    def read(self, size=-1):
        self._checkClosed()
        for f in self._fs.active_faults('stream_read'):
            if f.hit():
                self._fs.note_fired(f, self)
                if f.kind == 'short':
                    continue
                raise f.make_exc('stream read')
        if size is None or size < 0:
            return self._buf.read()
        n = min(size, self._chunk)
        out = self._buf.read(n)
        if n < size and len(out) == n:
            self._fs.counters['text_short_reads'] = self._fs.counters.get('text_short_reads', 0) + 1
        return out

    def readline(self, size=-1):
        self._checkClosed()
        return self._buf.readline(size)

    def write(self, s):
        raise io.UnsupportedOperation('not writable')

    def seek(self, *a):
        raise io.UnsupportedOperation('underlying stream is not seekable')

    def tell(self):
        raise io.UnsupportedOperation('underlying stream is not seekable')
