"""
Entry point:  check <C10|C19> --tier quick|thorough      run a property check
              check replay <file>                          replay a violation file
              check selftest <C10|C19> [--n N]             determinism self-test only
"""
from __future__ import annotations

import argparse
import importlib
import json
import os
import subprocess
import sys
import time

from . import kernel
from .kernel import (EXIT_HARNESS, EXIT_OK, EXIT_VIOLATION, Batch, HarnessError, KnownFindings, canon,
                     merge_counters, write_evidence)

MODULES = {'C10': 'sim.c10', 'C19': 'sim.c19'}


def tier_config(prop, tier):
    mod = importlib.import_module(MODULES[prop])
    return mod.tier_config(tier)


def run_batches(prop, verif_seed, tier, budget_s=None, workers=None, extra_cfg=None):
    mod = importlib.import_module(MODULES[prop])
    conf = mod.tier_config(tier)
    t0 = time.monotonic()
    deadline = (t0 + budget_s) if budget_s else None
    agg = {
        'evaluations': 0, 'digests': set(), 'nontrivial_digests': set(), 'counters': {}, 'states': set(),
        'violations': [], 'harness_errors': [], 'per_class': {}, 'samples': [], 'ops': 0, 'schedules': set(),
    }
    batch = Batch(workers)
    cfg = {'verif_seed': verif_seed, 'sample': conf.get('sample', 2)}
    if extra_cfg:
        cfg.update(extra_cfg)
    rounds = 0
    offset = 0
    while True:
        items = []
        for (cls, n) in conf['classes']:
            items.extend((cls, offset + i) for i in range(n))
        items.sort(key=lambda it: (it[1], it[0]))
        for r in batch.map(MODULES[prop], 'run_one', cfg, items, chunk=conf.get('chunk', 25),
                           hang_s=conf.get('hang_s', 600), deadline=deadline):
            if 'harness_error' in r:
                agg['harness_errors'].append(r)
                continue
            agg['evaluations'] += 1
            d = r['digest'][:20]
            agg['digests'].add(d)
            if r.get('nontrivial'):
                agg['nontrivial_digests'].add(d)
            merge_counters(agg['counters'], r['counters'])
            agg['states'].update(r.get('states', ()))
            if r.get('schedule_hash') is not None:
                agg['schedules'].add(r['schedule_hash'])
            agg['ops'] += r.get('nops', 0)
            pc = agg['per_class'].setdefault(r['cls'], {'runs': 0, 'violating_runs': 0})
            pc['runs'] += 1
            if r['violation'] is not None:
                pc['violating_runs'] += 1
                agg['violations'].append(r)
            if r.get('sample') is not None and len(agg['samples']) < 3:
                agg['samples'].append(r['sample'])
        rounds += 1
        offset += max(n for (_, n) in conf['classes'])
        if deadline is None or time.monotonic() > deadline or not conf.get('repeat', False):
            break
    agg['wall_batch_s'] = time.monotonic() - t0
    agg['rounds'] = rounds
    return agg


def shrink_and_replay(prop, violations, max_sigs=4, known=None):
    """Minimise one violation per signature, write the replay file, confirm it in a fresh interpreter."""
    mod = importlib.import_module(MODULES[prop])
    from .shrink import shrink
    by_sig = {}
    for r in sorted(violations, key=lambda r: (r['cls'], r['index'])):
        by_sig.setdefault(r['violation']['signature'], r)
    out = []
    os.makedirs(kernel.REPLAY_DIR, exist_ok=True)
    for sig, r in list(by_sig.items())[:max_sigs]:
        def run(plan):
            return mod.execute_isolated(plan)
        budget = mod.SHRINK_BUDGET if hasattr(mod, 'SHRINK_BUDGET') else 500
        if known is not None and known.match(prop, sig) is not None:
            budget = 40      # a listed finding: keep the replay file small-ish, but do not spend the check's time on it
        best, res, steps = shrink(r['plan'], run, sig, mod.shrink_candidates, budget=budget)
        final = mod.execute_isolated(best, want_trace=True)
        if not final['violation'] or final['violation']['signature'] != sig:
            best, final = r['plan'], None
            final = mod.execute_isolated(best, want_trace=True)
        name = f"{prop}-{r['cls']}-{r['index']}-{kernel.h64(sig) % 10**6:06d}.json"
        path = os.path.join(kernel.REPLAY_DIR, name)
        doc = {'property': prop, 'signature': sig, 'violation': final['violation'], 'digest': final['digest'],
               'verif_seed_run': {'cls': r['cls'], 'index': r['index'], 'seed': r['seed']},
               'minimised_steps': steps, 'original_ops': len(r['plan'].get('ops', [])),
               'minimised_ops': len(best.get('ops', [])), 'plan': best, 'trace': final.get('trace')}
        with open(path, 'w') as f:
            json.dump(doc, f, indent=1, default=kernel._json_default)
        ok, msg = replay_in_fresh_interpreter(path)
        out.append({'signature': sig, 'path': path, 'replayed': ok, 'msg': msg, 'violation': final['violation'],
                    'count': sum(1 for v in violations if v['violation']['signature'] == sig)})
    return out, by_sig


def replay_in_fresh_interpreter(path):
    env = dict(os.environ)
    env['PYTHONHASHSEED'] = '0'
    p = subprocess.run([sys.executable, '-B', os.path.join(kernel.VERIF_DIR, 'sim', 'entry.py'), 'replay', path],
                       capture_output=True, text=True, env=env, timeout=600)
    ok = p.returncode == EXIT_VIOLATION and 'VIOLATION property=' in p.stdout
    return ok, (p.stdout + p.stderr)[-2000:]


def cmd_replay(path):
    with open(path) as f:
        doc = json.load(f)
    prop = doc['property']
    kernel.import_repo()
    mod = importlib.import_module(MODULES[prop])
    res = mod.execute(doc['plan'], want_trace=True)   # this process is fresh: nothing has used pane yet
    v = res['violation']
    if v and v['signature'] == doc['signature'] and res['digest'] == doc['digest'] and v['op_index'] == doc['violation']['op_index']:
        print(f"replayed: {v['signature']} at operation {v['op_index']}: {v['detail']}")
        print(f"VIOLATION property={prop} replay={path}")
        return EXIT_VIOLATION
    print(f"REPLAY-DIVERGED property={prop} replay={path} expected={doc['signature']} digest={doc['digest'][:12]} "
          f"got={v['signature'] if v else None} digest={res['digest'][:12]}")
    return EXIT_HARNESS


def determinism_selftest(prop, verif_seed, n, workers_list=(3, None), tier='quick'):
    """
    Same seeds executed at two worker counts in this process tree and once more in a fresh interpreter
    under another PYTHONHASHSEED.  All digests must agree.
    """
    mod = importlib.import_module(MODULES[prop])
    classes = [c for (c, _) in mod.tier_config(tier)['classes']]
    items = [(c, i) for i in range(max(1, n // len(classes))) for c in classes]
    runs = []
    for w in workers_list:
        b = Batch(w)
        d = {}
        for r in b.map(MODULES[prop], 'run_one', {'verif_seed': verif_seed}, items, chunk=10, hang_s=600):
            if 'harness_error' in r:
                raise HarnessError(r['harness_error'])
            d[(r['cls'], r['index'])] = r['digest']
        runs.append(d)
    # fresh interpreters, reversed order: once under the hash seed every check runs with (hard criterion),
    # once under another PYTHONHASHSEED (soft: verdicts never depend on it - the oracle compares outcomes
    # within one process - but a digest that does is reported, so that it can be fixed)
    def fresh(hashseed):
        env = dict(os.environ)
        env['PYTHONHASHSEED'] = hashseed
        env['VERIF_HASHSEED'] = hashseed
        p = subprocess.run([sys.executable, '-B', os.path.join(kernel.VERIF_DIR, 'sim', 'entry.py'), 'digests', prop,
                            str(verif_seed), json.dumps(list(reversed(items)))], capture_output=True, text=True, env=env, timeout=1800)
        if p.returncode != 0:
            raise HarnessError(f"digest subprocess failed: {p.stdout[-800:]} {p.stderr[-1500:]}")
        return {tuple(k): v for (k, v) in json.loads(p.stdout.strip().splitlines()[-1])}
    runs.append(fresh('0'))
    other = fresh('12345')
    mismatches = []
    for key in runs[0]:
        vals = [r.get(key) for r in runs]
        if len(set(vals)) != 1:
            mismatches.append([list(key), vals])
    soft = [list(k) for k in runs[0] if other.get(k) != runs[0][k]]
    return {'seeds': len(items), 'executions_per_seed': len(runs) + 1, 'configurations':
            ['3 workers', f'{Batch().workers} workers', 'fresh interpreter, reversed order, 8 workers',
             'fresh interpreter, PYTHONHASHSEED=12345, reversed order, 8 workers (soft)'],
            'mismatches': len(mismatches), 'mismatch_examples': mismatches[:3],
            'digests_sensitive_to_PYTHONHASHSEED': len(soft), 'hashseed_sensitive_examples': soft[:3]}


def cmd_digests(prop, verif_seed, items_json):
    kernel.import_repo()
    out = []
    items = [tuple(it) for it in json.loads(items_json)]
    for r in Batch(8).map(MODULES[prop], 'run_one', {'verif_seed': int(verif_seed)}, items, chunk=10, hang_s=600):
        if 'harness_error' in r:
            raise HarnessError(r['harness_error'])
        out.append([[r['cls'], r['index']], r['digest']])
    print(json.dumps(out))
    return 0


def cmd_check(prop, tier, budget_s=None, selftest_n=None):
    t0 = time.time()
    verif_seed = int(os.environ.get('VERIF_SEED', '0'))
    kernel.import_repo()
    mod = importlib.import_module(MODULES[prop])
    conf = mod.tier_config(tier)
    if budget_s is None:
        budget_s = conf.get('budget_s')
    env_budget = os.environ.get('VERIF_BUDGET_S')
    if env_budget and tier == 'thorough':
        budget_s = float(env_budget)
    print(f"[{prop}] tier={tier} VERIF_SEED={verif_seed} repo={kernel.REPO_DIR} tree={kernel.repo_fingerprint()}", flush=True)
    agg = run_batches(prop, verif_seed, tier, budget_s=budget_s)
    print(f"[{prop}] batches: {agg['evaluations']} runs in {agg['wall_batch_s']:.1f}s", flush=True)
    if agg['harness_errors']:
        print("HARNESS-ERROR:", agg['harness_errors'][0]['harness_error'][-3000:])
        print("HARNESS-ERROR items (class, index) at VERIF_SEED=%d:" % verif_seed, [e.get('item') for e in agg['harness_errors'][:10]])
        return EXIT_HARNESS
    extra_viol = []
    if hasattr(mod, 'extra_phase'):
        extra = mod.extra_phase(verif_seed, tier, agg)
        extra_viol = extra.get('violations', [])
        agg['violations'].extend(extra_viol)
        agg.setdefault('extra', {}).update(extra.get('evidence', {}))
    known = KnownFindings()
    t1 = time.time()
    reported, by_sig = shrink_and_replay(prop, agg['violations'], known=known) if agg['violations'] else ([], {})
    if agg['violations']:
        print(f"[{prop}] minimise+replay: {len(reported)} signature(s) in {time.time() - t1:.1f}s", flush=True)
    exit_code = EXIT_OK
    unlisted = 0
    diverged = []
    for rep in reported:
        text = known.match(prop, rep['signature'])
        if not rep['replayed']:
            diverged.append(rep)
            continue
        if text is not None:
            print(f"KNOWN-FINDING: property={prop} {text} (signature={rep['signature']}, {rep['count']} runs, e.g. {rep['path']})")
            continue
        unlisted += 1
        print(f"violation: {rep['signature']} in {rep['count']} runs: {rep['violation']['detail']}")
        print(f"VIOLATION property={prop} replay={rep['path']}")
        if exit_code == EXIT_OK:
            exit_code = EXIT_VIOLATION
    for sig in by_sig:
        if sig not in {r['signature'] for r in reported}:
            text = known.match(prop, sig)
            if text is None:
                print(f"violation (not minimised, over the per-run signature cap): {sig}")
                if exit_code == EXIT_OK:
                    exit_code = EXIT_VIOLATION
                unlisted += 1
    for rep in diverged:
        # a violation that does not replay exactly is never reported as one.  If another violation of this run did
        # replay, the verdict stands on that one (code under test that reaches outside the simulated world - writes
        # relative to its import-time directory, say - cannot be replayed bit for bit); if none did, the machinery
        # itself is in doubt and the run is a harness error
        print(f"{'note' if exit_code == EXIT_VIOLATION else 'HARNESS-ERROR'}: violation {rep['signature']} did not replay "
              f"exactly in a fresh interpreter:\n{rep['msg']}")
        if exit_code != EXIT_VIOLATION:
            exit_code = EXIT_HARNESS
    # determinism self-test
    n_self = selftest_n if selftest_n is not None else conf.get('selftest_n', 0)
    det = None
    if n_self:
        t2 = time.time()
        det = determinism_selftest(prop, verif_seed, n_self, tier=tier)
        print(f"[{prop}] determinism self-test: {det['seeds']} seeds x {det['executions_per_seed']} in {time.time() - t2:.1f}s", flush=True)
        if det['mismatches']:
            print(f"HARNESS-ERROR: determinism self-test failed: {det['mismatch_examples']}")
            exit_code = EXIT_HARNESS
        if det.get('digests_sensitive_to_PYTHONHASHSEED'):
            print(f"note: {det['digests_sensitive_to_PYTHONHASHSEED']} run digest(s) differ under another PYTHONHASHSEED "
                  f"(checks always run under PYTHONHASHSEED=0; verdicts are unaffected): {det['hashseed_sensitive_examples']}")
    wall = time.time() - t0
    cov = mod.coverage(agg, conf)
    cov['determinism_selftest'] = det
    cov['runs_per_hour'] = int(agg['evaluations'] / max(agg['wall_batch_s'], 1e-9) * 3600)
    cov['seeds_per_hour'] = cov['runs_per_hour']
    cov['simulated_time'] = 'none: pane reads no clock; logical operations are reported instead'
    cov['operations_executed'] = agg['ops']
    cov['per_class'] = agg['per_class']
    cov['violating_runs'] = len(agg['violations'])
    cov['violation_signatures'] = sorted(by_sig)
    cov['repo_tree_fingerprint'] = kernel.repo_fingerprint()
    cov['workers'] = Batch().workers
    write_evidence(prop, tier, verif_seed, cov, mod.ASSUMPTIONS, wall, unlisted)
    print(f"[{prop}] runs={agg['evaluations']} distinct_nontrivial={cov['distinct_nontrivial']} "
          f"violating_runs={len(agg['violations'])} unlisted={unlisted} wall={wall:.1f}s exit={exit_code}", flush=True)
    return exit_code


def main(argv=None):
    argv = list(sys.argv[1:] if argv is None else argv)
    if not argv:
        print(__doc__)
        return EXIT_HARNESS
    try:
        if argv[0] == 'replay':
            return cmd_replay(os.path.abspath(argv[1]))
        if argv[0] == 'digests':
            return cmd_digests(argv[1], argv[2], argv[3])
        if argv[0] == 'selftest':
            ap = argparse.ArgumentParser()
            ap.add_argument('prop')
            ap.add_argument('--n', type=int, default=200)
            a = ap.parse_args(argv[1:])
            kernel.import_repo()
            det = determinism_selftest(a.prop, int(os.environ.get('VERIF_SEED', '0')), a.n)
            print(json.dumps(det, indent=1))
            return EXIT_OK if not det['mismatches'] else EXIT_HARNESS
        ap = argparse.ArgumentParser()
        ap.add_argument('prop', choices=sorted(MODULES))
        ap.add_argument('--tier', default=os.environ.get('VERIF_TIER', 'quick'), choices=['quick', 'thorough'])
        ap.add_argument('--budget', type=float, default=None)
        ap.add_argument('--selftest-n', type=int, default=None)
        a = ap.parse_args(argv)
        return cmd_check(a.prop, a.tier, a.budget, a.selftest_n)
    except HarnessError as e:
        print(f"HARNESS-ERROR: {e}")
        return EXIT_HARNESS
