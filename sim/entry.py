"""Process entry (kept tiny so that no simulator module is ever loaded twice)."""
import os
import sys

sys.dont_write_bytecode = True
sys.path.insert(0, os.path.dirname(os.path.dirname(os.path.abspath(__file__))))

from sim import kernel  # noqa: E402

kernel.ensure_hashseed()

from sim.main import main  # noqa: E402

if __name__ == '__main__':
    try:
        code = main()
    except kernel.HarnessError as e:
        print(f"HARNESS-ERROR: {e}")
        code = 2
    except SystemExit:
        raise
    except BaseException:
        import traceback
        print("HARNESS-ERROR: uncaught exception in the simulator\n" + traceback.format_exc())
        code = 2
    sys.stdout.flush()
    sys.exit(code)
