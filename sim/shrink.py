"""Greedy delta-debugging over plans: keep a candidate while the same violation class persists."""
from __future__ import annotations

import copy


def shrink(plan, run, signature, candidates, budget=600, wall_s=150.0):
    """
    plan        JSON plan
    run(plan)   -> result dict with 'violation' (None or {'signature':..})
    candidates  fn(plan, last_result) -> iterable of smaller plans (most aggressive first)
    budget      candidate executions; wall_s: wall-clock bound (minimisation is a courtesy, the verdict does not wait for it)
    """
    import time
    deadline = time.monotonic() + wall_s
    best = plan
    best_res = run(best)
    if not (best_res['violation'] and best_res['violation']['signature'] == signature):
        return plan, best_res, 0
    steps = 0
    improved = True
    while improved and budget > 0:
        improved = False
        for cand in candidates(best, best_res):
            budget -= 1
            if budget <= 0 or time.monotonic() > deadline:
                budget = 0
                break
            try:
                r = run(cand)
            except Exception:
                continue
            v = r.get('violation')
            if v and v['signature'] == signature:
                best, best_res = cand, r
                steps += 1
                improved = True
                break
    return best, best_res, steps


def chunks_to_drop(n):
    """ddmin order: halves, quarters, ..., singles (as index sets to remove)."""
    size = n // 2
    seen = set()
    while size >= 1:
        for start in range(0, n, size):
            idx = tuple(range(start, min(n, start + size)))
            if idx and idx not in seen and len(idx) < n:
                seen.add(idx)
                yield set(idx)
        size //= 2


def without(lst, drop):
    return [x for (i, x) in enumerate(lst) if i not in drop]


def clone(plan):
    return copy.deepcopy(plan)
