"""
Simulator kernel shared by the C10 and C19 simulations.

* one integer decides everything: VERIF_SEED -> per-run seed -> named PRNG streams
* explicit trace + digest per run
* batch driver on a fork ProcessPoolExecutor with hang protection
* exit codes: 0 held / 1 violation (unlisted) / 2 harness error
* known-findings file handling
* evidence writer

Nothing in here reads a clock inside a run; wall-clock is read only by the batch
driver (budget cap / evidence wall_s).
"""
from __future__ import annotations

import faulthandler
import hashlib
import json
import os
import random
import sys
import time
import traceback
from concurrent.futures import ProcessPoolExecutor, as_completed
from concurrent.futures.process import BrokenProcessPool
import multiprocessing

VERIF_DIR = os.path.dirname(os.path.dirname(os.path.abspath(__file__)))
REPO_DIR = os.path.abspath(os.environ.get('PANE_REPO') or '/repo')
EVIDENCE_DIR = os.path.abspath(os.environ.get('VERIF_EVIDENCE_DIR') or os.path.join(VERIF_DIR, 'evidence'))
REPLAY_DIR = os.path.abspath(os.environ.get('VERIF_REPLAY_DIR') or os.path.join(VERIF_DIR, 'replays'))
KNOWN_FINDINGS = os.path.join(VERIF_DIR, 'known_findings.txt')

EXIT_OK, EXIT_VIOLATION, EXIT_HARNESS = 0, 1, 2


class HarnessError(Exception):
    """A defect of the simulator itself (never reported as VIOLATION)."""


# ---------------------------------------------------------------------------------------------
# seeds and PRNG streams

def h64(*parts) -> int:
    s = '\x1f'.join(str(p) for p in parts).encode()
    return int.from_bytes(hashlib.sha256(s).digest()[:8], 'big')


def run_seed(verif_seed: int, prop: str, cls: str, index: int) -> int:
    return h64('run', verif_seed, prop, cls, index)


class Streams:
    """Independent named PRNG streams derived from one run seed."""

    def __init__(self, seed: int):
        self.seed = seed
        self._cache = {}

    def rng(self, name: str) -> random.Random:
        r = self._cache.get(name)
        if r is None:
            r = self._cache[name] = random.Random(h64('stream', self.seed, name))
        return r


# ---------------------------------------------------------------------------------------------
# trace / digest

def canon(obj) -> str:
    return json.dumps(obj, sort_keys=True, separators=(',', ':'), ensure_ascii=True, default=_json_default)


def _json_default(o):
    if isinstance(o, (set, frozenset)):
        return sorted(map(str, o))
    if isinstance(o, bytes):
        return {'b': o.hex()}
    if isinstance(o, tuple):
        return list(o)
    return repr(o)


class Trace:
    __slots__ = ('events',)

    def __init__(self):
        self.events = []

    def add(self, *ev):
        self.events.append(ev)

    def digest(self) -> str:
        h = hashlib.sha256()
        for ev in self.events:
            if ev and ev[0] == 'violation':
                ev = ev[:-1]        # the free-text detail (exception messages: process ids, temp names) is not part of it
            h.update(canon(ev).encode())
            h.update(b'\n')
        return h.hexdigest()


# ---------------------------------------------------------------------------------------------
# the repository under test

_HOME = None


def _enter_private_home():
    """The process imports and runs pane from an empty private scratch directory (removed at exit): whatever the code
    under test may write relative to the current directory - now or as captured at import time - lands there and
    never in /verif or /repo."""
    global _HOME
    if _HOME is not None:
        return
    import atexit
    import shutil
    import tempfile
    base = os.environ.get('VERIF_SCRATCH') or ('/dev/shm' if os.path.isdir('/dev/shm') else tempfile.gettempdir())
    _HOME = tempfile.mkdtemp(prefix='pane_home_', dir=base)
    owner = os.getpid()
    os.chdir(_HOME)

    def _cleanup():
        if os.getpid() == owner:
            try:
                os.chdir('/')
            except OSError:
                pass
            shutil.rmtree(_HOME, ignore_errors=True)
    atexit.register(_cleanup)


def import_repo():
    """Import the real pane package from /repo's current working tree."""
    if REPO_DIR not in sys.path:
        sys.path.insert(0, REPO_DIR)
    sys.dont_write_bytecode = True
    import warnings
    warnings.simplefilter('ignore')
    _enter_private_home()
    import pane  # noqa
    pf = os.path.realpath(pane.__file__)
    if not pf.startswith(os.path.realpath(REPO_DIR) + os.sep):
        raise HarnessError(f"pane imported from {pf}, not from {REPO_DIR}")
    return pane


def repo_fingerprint() -> str:
    """sha256 over the pane sources in the working tree (evidence only)."""
    h = hashlib.sha256()
    root = os.path.join(REPO_DIR, 'pane')
    for dp, dn, fn in sorted(os.walk(root)):
        dn.sort()
        for f in sorted(fn):
            if f.endswith('.py'):
                p = os.path.join(dp, f)
                h.update(os.path.relpath(p, root).encode())
                with open(p, 'rb') as fh:
                    h.update(fh.read())
    return h.hexdigest()[:16]


# ---------------------------------------------------------------------------------------------
# known findings

class KnownFindings:
    """
    known_findings.txt lines:
      finding: property=<id> signature=<sig> <free text>
      fixed: property=<id> <commit> <free text>
    A `finding` suppresses exactly the violations whose signature equals <sig>.
    `fixed` lines suppress nothing.
    """

    def __init__(self, path=KNOWN_FINDINGS):
        self.findings = []  # (prop, sig, text)
        self.fixed = []
        if os.path.exists(path):
            with open(path) as f:
                for line in f:
                    line = line.strip()
                    if not line or line.startswith('#'):
                        continue
                    if line.startswith('finding:'):
                        rest = line[len('finding:'):].strip()
                        toks = rest.split(None, 2)
                        prop = toks[0].split('=', 1)[1]
                        sig = toks[1].split('=', 1)[1]
                        text = toks[2] if len(toks) > 2 else ''
                        self.findings.append((prop, sig, text))
                    elif line.startswith('fixed:'):
                        self.fixed.append(line)

    def match(self, prop: str, sig: str):
        for (p, s, text) in self.findings:
            if p == prop and s == sig:
                return text
        return None


# ---------------------------------------------------------------------------------------------
# batch driver

def _worker_init():
    # fresh PRNG state is irrelevant (nothing uses the global random), but make sure
    os.environ['PYTHONHASHSEED'] = os.environ.get('PYTHONHASHSEED', '0')


def _run_chunk(args):
    (modname, fname, cfg, items, hang_s) = args
    faulthandler.enable()
    faulthandler.dump_traceback_later(hang_s, exit=True)
    try:
        import importlib
        mod = importlib.import_module(modname)
        fn = getattr(mod, fname)
        out = []
        for item in items:
            try:
                out.append(fn(cfg, item))
            except Exception:  # harness exception: classified apart from VIOLATION
                out.append({'harness_error': traceback.format_exc(), 'item': item})
        return out
    finally:
        faulthandler.cancel_dump_traceback_later()


class Batch:
    """Run fn(cfg, item) for many items on a fork pool; merge results."""

    def __init__(self, workers=None):
        self.workers = workers or int(os.environ.get('VERIF_WORKERS', os.cpu_count() or 4))
        self.ctx = multiprocessing.get_context('fork')

    def map(self, modname, fname, cfg, items, chunk=25, hang_s=300, deadline=None):
        """
        Yields result dicts (order not guaranteed).  Raises HarnessError on a dead or hung
        worker.  If `deadline` (time.monotonic value) passes, remaining chunks are cancelled.
        """
        items = list(items)
        chunks = [items[i:i + chunk] for i in range(0, len(items), chunk)]
        if self.workers <= 1:
            for c in chunks:
                if deadline is not None and time.monotonic() > deadline:
                    return
                for r in _run_chunk((modname, fname, cfg, c, hang_s)):
                    yield r
            return
        with ProcessPoolExecutor(max_workers=self.workers, mp_context=self.ctx,
                                 initializer=_worker_init) as ex:
            futs = [ex.submit(_run_chunk, (modname, fname, cfg, c, hang_s)) for c in chunks]
            try:
                for fut in as_completed(futs, timeout=None):
                    if fut.cancelled():
                        continue
                    try:
                        res = fut.result()
                    except BrokenProcessPool as e:
                        raise HarnessError(f"worker died or hung (>{hang_s}s per chunk): {e}")
                    for r in res:
                        yield r
                    if deadline is not None and time.monotonic() > deadline:
                        for f2 in futs:
                            f2.cancel()
            finally:
                for f2 in futs:
                    f2.cancel()


# ---------------------------------------------------------------------------------------------
# per-run isolation: every run executes in a child forked from a process that has imported pane but
# never used it, so no state the code under test may keep anywhere (memo contents, per-class or
# per-converter caches, "last lookup" fields, typing caches, gc generations) leaks from one run into
# the next, and a run in a batch worker is the same computation as its replay in a fresh interpreter.

def run_isolated(fn, *args, timeout=180):
    import pickle
    r, w = os.pipe()
    sys.stdout.flush()
    sys.stderr.flush()
    pid = os.fork()
    if pid == 0:
        code = 0
        try:
            os.close(r)
            # fork-safe watchdog (faulthandler's watchdog thread does not survive fork and re-arming it
            # in the child deadlocks): SIGALRM's default action terminates the child
            import signal
            signal.signal(signal.SIGALRM, signal.SIG_DFL)
            signal.alarm(int(timeout))
            # everything that exists at this point (the interpreter, pane, yaml, the harness) is shared, immortal
            # state of the pristine image: collections inside the run look only at what the run itself creates
            import gc
            gc.freeze()
            try:
                res = ('ok', fn(*args))
            except BaseException:  # noqa
                res = ('err', traceback.format_exc())
            try:
                data = pickle.dumps(res)
            except Exception:
                data = pickle.dumps(('err', 'unpicklable result: ' + traceback.format_exc()))
            with os.fdopen(w, 'wb') as f:
                f.write(data)
        except BaseException:  # noqa
            code = 3
        finally:
            os._exit(code)
    os.close(w)
    with os.fdopen(r, 'rb') as f:
        data = f.read()
    _, status = os.waitpid(pid, 0)
    if not data:
        raise HarnessError(f"isolated run died or hung (> {timeout}s), wait status {status}")
    kind, val = pickle.loads(data)
    if kind == 'err':
        raise HarnessError("exception inside an isolated run:\n" + val)
    return val


class PristineServer:
    """
    A process forked at the very start of a run (before the run has used pane at all) that serves
    "what would this call give in a process with no history?" requests: for each request it forks a
    worker from its own pristine image, the worker evaluates handler(request) and answers.  The server
    itself never executes anything but fork/wait, so every worker starts from the same pristine state.
    """

    def __init__(self, handler, timeout=60):
        import pickle
        self._pickle = pickle
        req_r, req_w = os.pipe()
        resp_r, resp_w = os.pipe()
        sys.stdout.flush()
        sys.stderr.flush()
        pid = os.fork()
        if pid == 0:
            code = 0
            try:
                os.close(req_w)
                os.close(resp_r)
                import signal
                signal.signal(signal.SIGALRM, signal.SIG_DFL)
                rf = os.fdopen(req_r, 'rb')
                while True:
                    hdr = rf.read(8)
                    if len(hdr) < 8:
                        break
                    n = int.from_bytes(hdr, 'big')
                    body = rf.read(n)
                    wpid = os.fork()
                    if wpid == 0:
                        wc = 0
                        try:
                            signal.alarm(int(timeout))
                            try:
                                out = ('ok', handler(pickle.loads(body)))
                            except BaseException:  # noqa
                                out = ('err', traceback.format_exc())
                            data = pickle.dumps(out)
                            os.write(resp_w, len(data).to_bytes(8, 'big'))
                            view = memoryview(data)
                            while len(view):
                                k = os.write(resp_w, view)
                                view = view[k:]
                        except BaseException:  # noqa
                            wc = 3
                        finally:
                            os._exit(wc)
                    _, status = os.waitpid(wpid, 0)
                    if status != 0:
                        data = pickle.dumps(('err', f'pristine worker died, wait status {status}'))
                        os.write(resp_w, len(data).to_bytes(8, 'big') + data)
            except BaseException:  # noqa
                code = 3
            finally:
                os._exit(code)
        os.close(req_r)
        os.close(resp_w)
        self.pid = pid
        self.req_w = req_w
        self.resp_f = os.fdopen(resp_r, 'rb')
        self.calls = 0

    def call(self, req):
        data = self._pickle.dumps(req)
        os.write(self.req_w, len(data).to_bytes(8, 'big'))
        view = memoryview(data)
        while len(view):
            k = os.write(self.req_w, view)
            view = view[k:]
        hdr = self.resp_f.read(8)
        if len(hdr) < 8:
            raise HarnessError("pristine oracle server went away")
        body = self.resp_f.read(int.from_bytes(hdr, 'big'))
        kind, val = self._pickle.loads(body)
        self.calls += 1
        if kind == 'err':
            raise HarnessError("pristine oracle worker failed:\n" + str(val))
        return val

    def close(self):
        try:
            os.close(self.req_w)
        except OSError:
            pass
        try:
            self.resp_f.close()
        except OSError:
            pass
        try:
            os.waitpid(self.pid, 0)
        except ChildProcessError:
            pass


# ---------------------------------------------------------------------------------------------
# evidence

def write_evidence(prop: str, tier: str, seed: int, coverage: dict, assumptions, wall_s: float,
                   violations: int, extra=None):
    os.makedirs(EVIDENCE_DIR, exist_ok=True)
    ev = {
        'property_id': prop,
        'tier': tier,
        'seed': seed,
        'level': 'exploration',
        'coverage': coverage,
        'assumptions': list(assumptions),
        'wall_s': round(wall_s, 3),
        'violations': violations,
    }
    if extra:
        ev.update(extra)
    path = os.path.join(EVIDENCE_DIR, f'{prop}.json')
    tmp = path + '.tmp'
    with open(tmp, 'w') as f:
        json.dump(ev, f, indent=1, sort_keys=True, default=_json_default)
        f.write('\n')
    os.replace(tmp, path)
    return path


def merge_counters(dst: dict, src: dict):
    for k, v in src.items():
        if isinstance(v, dict):
            merge_counters(dst.setdefault(k, {}), v)
        else:
            dst[k] = dst.get(k, 0) + v


def ensure_hashseed():
    """Re-exec with PYTHONHASHSEED=0 (set-iteration order is a replay breaker)."""
    want = os.environ.get('VERIF_HASHSEED', '0')
    if os.environ.get('PYTHONHASHSEED') != want:
        env = dict(os.environ)
        env['PYTHONHASHSEED'] = want
        env['PYTHONDONTWRITEBYTECODE'] = '1'
        os.execve(sys.executable, [sys.executable, '-B'] + sys.argv, env)
