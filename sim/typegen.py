"""
Type-expression grammar, class/enum definitions, handler pool, data sampler and JSON encodings.

Everything here is *workload*: it builds the type objects, dataclasses, handler sets and data
values the simulators feed to the real pane code.  Type expressions and data values are kept as
small JSON ASTs so that every operation of a run can be written into the trace / replay file.
"""
from __future__ import annotations

import datetime
import enum
import math
import pathlib
import re
import sys
import types
import typing as t
from decimal import Decimal
from fractions import Fraction

from .kernel import HarnessError

# ---------------------------------------------------------------------------------------------
# tagged JSON encoding of interchange data (distinguishes tuple/list, bytes, inf, bool/int)


def enc(v):
    if v is None or isinstance(v, (bool, str)):
        return v
    if isinstance(v, int):
        return v
    if isinstance(v, float):
        return {'f': repr(v)}
    if isinstance(v, complex):
        return {'c': [repr(v.real), repr(v.imag)]}
    if isinstance(v, bytes):
        return {'b': v.hex()}
    if isinstance(v, bytearray):
        return {'ba': bytes(v).hex()}
    if isinstance(v, tuple):
        return {'t': [enc(x) for x in v]}
    if isinstance(v, list):
        return [enc(x) for x in v]
    if isinstance(v, dict):
        return {'d': [[enc(k), enc(x)] for (k, x) in v.items()]}
    raise HarnessError(f"enc: unsupported {type(v)}")


def dec(j):
    if j is None or isinstance(j, (bool, str, int)):
        return j
    if isinstance(j, list):
        return [dec(x) for x in j]
    if isinstance(j, dict):
        (k, v), = j.items()
        if k == 'f':
            return float(v)
        if k == 'pow10':
            return 10 ** int(v)             # integers too long to be written out in a plan (int <-> str digit limit)
        if k == 'rep':
            return str(v[0]) * int(v[1])    # long repetitive strings
        if k == 'c':
            return complex(float(v[0]), float(v[1]))
        if k == 'b':
            return bytes.fromhex(v)
        if k == 'ba':
            return bytearray(bytes.fromhex(v))
        if k == 't':
            return tuple(dec(x) for x in v)
        if k == 'd':
            return {_hashable(dec(a)): dec(b) for (a, b) in v}
    raise HarnessError(f"dec: unsupported {j!r}")


def _hashable(k):
    if isinstance(k, list):
        return tuple(map(_hashable, k))
    return k


# ---------------------------------------------------------------------------------------------
# scalars

SCALARS: t.Dict[str, t.Any] = {
    'int': int, 'float': float, 'str': str, 'bool': bool, 'bytes': bytes, 'complex': complex,
    'none': type(None), 'Fraction': Fraction, 'Decimal': Decimal,
    'date': datetime.date, 'datetime': datetime.datetime, 'time': datetime.time,
    'PurePath': pathlib.PurePosixPath, 'Pattern': re.Pattern, 'any': t.Any,
}


class Opaque:
    """A user type pane knows nothing about: convertible only through a custom handler."""
    __slots__ = ('v',)

    def __init__(self, v):
        self.v = v

    def __eq__(self, other):
        return type(other) is Opaque and self.v == other.v

    def __hash__(self):
        return hash(('Opaque', self.v))

    def __repr__(self):
        return f"Opaque({self.v!r})"


SCALARS['Opaque'] = Opaque


def _newtype(base):
    """User subclasses of the basic scalar types, all produced by ONE factory: same module, same qualified name
    ('_newtype.<locals>.Id'), different bases - like a class statement run several times."""
    class Id(base):     # type: ignore
        __slots__ = ()
    Id.__module__ = 'simworld'
    return Id


SCALARS.update({'IdInt': _newtype(int), 'IdFloat': _newtype(float), 'IdDecimal': _newtype(Decimal), 'IdFraction': _newtype(Fraction)})

# ---------------------------------------------------------------------------------------------
# handler pool (all pure; identity of the function objects is what enters pane's memo key)

_pane = None


def _p():
    global _pane
    if _pane is None:
        import pane
        import pane.converters  # noqa
        _pane = pane
    return _pane


_CONV_CACHE: t.Dict[str, t.Any] = {}


def _custom_converters():
    """Custom Converter singletons (created lazily, after pane is importable)."""
    if _CONV_CACHE:
        return _CONV_CACHE
    from pane.converters import Converter
    from pane.errors import ParseInterrupt, WrongTypeError

    class DoubleInt(Converter):
        def expected(self, plural=False):
            return 'doubled ints' if plural else 'a doubled int'

        def into_data(self, val):
            return val // 2 if isinstance(val, int) and not isinstance(val, bool) else val

        def try_convert(self, val):
            if isinstance(val, int) and not isinstance(val, bool):
                return val * 2
            raise ParseInterrupt()

        def collect_errors(self, val):
            if isinstance(val, int) and not isinstance(val, bool):
                return None
            return WrongTypeError(self.expected(), val)

    class UpperStr(Converter):
        def expected(self, plural=False):
            return 'shouted strings' if plural else 'a shouted string'

        def into_data(self, val):
            return val.lower() if isinstance(val, str) else val

        def try_convert(self, val):
            if isinstance(val, str):
                return val.upper()
            raise ParseInterrupt()

        def collect_errors(self, val):
            if isinstance(val, str):
                return None
            return WrongTypeError(self.expected(), val)

    class OpaqueConv(Converter):
        def expected(self, plural=False):
            return 'opaques' if plural else 'an opaque'

        def into_data(self, val):
            return val.v if isinstance(val, Opaque) else val

        def try_convert(self, val):
            if isinstance(val, (int, str)) and not isinstance(val, bool):
                return Opaque(val)
            raise ParseInterrupt()

        def collect_errors(self, val):
            if isinstance(val, (int, str)) and not isinstance(val, bool):
                return None
            return WrongTypeError(self.expected(), val)

    class NegFloat(Converter):
        def expected(self, plural=False):
            return 'negated floats' if plural else 'a negated float'

        def into_data(self, val):
            return -val if isinstance(val, float) else val

        def try_convert(self, val):
            if isinstance(val, (int, float)) and not isinstance(val, bool):
                return -float(val)
            raise ParseInterrupt()

        def collect_errors(self, val):
            if isinstance(val, (int, float)) and not isinstance(val, bool):
                return None
            return WrongTypeError(self.expected(), val)

    class IncInt(Converter):
        def expected(self, plural=False):
            return 'incremented ints' if plural else 'an incremented int'

        def into_data(self, val):
            return val - 1 if isinstance(val, int) and not isinstance(val, bool) else val

        def try_convert(self, val):
            if isinstance(val, int) and not isinstance(val, bool):
                return val + 1
            raise ParseInterrupt()

        def collect_errors(self, val):
            if isinstance(val, int) and not isinstance(val, bool):
                return None
            return WrongTypeError(self.expected(), val)

    class TagStr(Converter):
        def expected(self, plural=False):
            return 'tagged strings' if plural else 'a tagged string'

        def into_data(self, val):
            return val[1:] if isinstance(val, str) and val.startswith('#') else val

        def try_convert(self, val):
            if isinstance(val, str):
                return '#' + val
            raise ParseInterrupt()

        def collect_errors(self, val):
            if isinstance(val, str):
                return None
            return WrongTypeError(self.expected(), val)

    class RevIntList(Converter):
        """for list[int] only: a handler that looks at the type *arguments*, not just the origin"""
        def expected(self, plural=False):
            return 'reversed int lists' if plural else 'a reversed int list'

        def into_data(self, val):
            return list(reversed(val)) if isinstance(val, list) else val

        def _ok(self, val):
            return isinstance(val, (list, tuple)) and all(isinstance(x, int) and not isinstance(x, bool) for x in val)

        def try_convert(self, val):
            if self._ok(val):
                return list(reversed(val))
            raise ParseInterrupt()

        def collect_errors(self, val):
            if self._ok(val):
                return None
            return WrongTypeError(self.expected(), val)

    class StrKeyDict(Converter):
        """for dict[str, int] only"""
        def expected(self, plural=False):
            return 'upper-keyed mappings' if plural else 'an upper-keyed mapping'

        def into_data(self, val):
            return {k.lower(): v for (k, v) in val.items()} if isinstance(val, dict) else val

        def _ok(self, val):
            return isinstance(val, dict) and all(isinstance(k, str) and isinstance(v, int) and not isinstance(v, bool)
                                                 for (k, v) in val.items())

        def try_convert(self, val):
            if self._ok(val):
                return {k.upper(): v for (k, v) in val.items()}
            raise ParseInterrupt()

        def collect_errors(self, val):
            if self._ok(val):
                return None
            return WrongTypeError(self.expected(), val)

    _CONV_CACHE.update(DoubleInt=DoubleInt(), UpperStr=UpperStr(), OpaqueConv=OpaqueConv(),
                       NegFloat=NegFloat(), IncInt=IncInt(), TagStr=TagStr(), RevIntList=RevIntList(),
                       StrKeyDict=StrKeyDict())
    return _CONV_CACHE


def h_dbl_int(ty, args, *, handlers):
    if ty is int and not args:
        return _custom_converters()['DoubleInt']
    return NotImplemented


def h_upper_str(ty, args, *, handlers):
    if ty is str and not args:
        return _custom_converters()['UpperStr']
    return NotImplemented


def h_opaque(ty, args, *, handlers):
    if ty is Opaque:
        return _custom_converters()['OpaqueConv']
    return NotImplemented


def h_neg_float(ty, args, *, handlers):
    if ty is float and not args:
        return _custom_converters()['NegFloat']
    return NotImplemented


def h_inc_int(ty, args, *, handlers):
    if ty is int and not args:
        return _custom_converters()['IncInt']
    return NotImplemented


def h_tag_str(ty, args, *, handlers):
    if ty is str and not args:
        return _custom_converters()['TagStr']
    return NotImplemented


def h_list_int(ty, args, *, handlers):
    """accepts list[int] / List[int], declines every other parameterisation of list"""
    if ty is list and tuple(args) == (int,):
        return _custom_converters()['RevIntList']
    return NotImplemented


def h_dict_str_int(ty, args, *, handlers):
    if ty is dict and tuple(args) == (str, int):
        return _custom_converters()['StrKeyDict']
    return NotImplemented


def h_defer_ni(ty, args, *, handlers):
    return NotImplemented


def h_defer_nie(ty, args, *, handlers):
    raise NotImplementedError()


class HandlerObj:
    """
    A handler that is an *object the application creates and drops* (a callable instance, like a bound method or a
    closure would be), unlike the module-level handler functions, which never die: whatever pane remembers about a
    handler by its identity must not outlive it.  `kind` names the pool handler it delegates to.
    """
    __slots__ = ('kind', '__weakref__')

    def __init__(self, kind):
        self.kind = kind

    def __call__(self, ty, args, *, handlers):
        return HANDLERS[self.kind](ty, args, handlers=handlers)

    def __repr__(self):
        return f"<HandlerObj {self.kind}>"


class FaultyHandler:
    """
    Handler wrapper owned by the simulator: raises an injected exception on the k-th
    invocation after arming (fault during converter construction).  One instance per
    underlying handler, so its identity in the memo key is stable across the run.
    """

    def __init__(self, name, inner):
        self.name = name
        self.inner = inner
        self.armed_k = None
        self.exc_cls = RuntimeError
        self.calls = 0
        self.fired = 0
        self.last_exc = None

    def arm(self, k, exc_cls):
        self.armed_k = k
        self.exc_cls = exc_cls
        self.calls = 0

    def disarm(self):
        self.armed_k = None

    def __call__(self, ty, args, *, handlers):
        if self.armed_k is not None:
            self.calls += 1
            if self.calls == self.armed_k:
                self.armed_k = None
                self.fired += 1
                self.last_exc = self.exc_cls(f"injected fault in handler {self.name}")
                raise self.last_exc
        return self.inner(ty, args, handlers=handlers)

    def __repr__(self):
        return f"<FaultyHandler {self.name}>"


HANDLERS: t.Dict[str, t.Any] = {
    'dbl_int': h_dbl_int, 'upper_str': h_upper_str, 'opaque': h_opaque, 'neg_float': h_neg_float,
    'defer_ni': h_defer_ni, 'defer_nie': h_defer_nie, 'inc_int': h_inc_int, 'tag_str': h_tag_str,
    'list_int': h_list_int, 'dict_str_int': h_dict_str_int,
}
HANDLER_MAP_CONVS = {'int': 'DoubleInt', 'str': 'UpperStr', 'Opaque': 'OpaqueConv', 'float': 'NegFloat'}


def make_faulty_pool():
    return {f'faulty_{n}': FaultyHandler(n, HANDLERS[n]) for n in ('dbl_int', 'upper_str', 'opaque')}


def build_handlers(spec, extra_pool=None):
    """
    spec: None | ["one", h] | ["seq", h1, h2..] | ["map", [tyname, ...]]
    """
    if spec is None:
        return None
    pool = dict(HANDLERS)
    if extra_pool:
        pool.update(extra_pool)
    kind = spec[0]
    if kind == 'one':
        return pool[spec[1]]
    if kind == 'seq':
        return [pool[n] for n in spec[1:]]
    if kind == 'tup':
        return tuple(pool[n] for n in spec[1:])
    if kind == 'map':
        convs = _custom_converters()
        return {SCALARS[n]: convs[HANDLER_MAP_CONVS[n]] for n in spec[1:]}
    raise HarnessError(f"bad handler spec {spec!r}")


def handlers_cover_opaque(spec) -> bool:
    if spec is None:
        return False
    if spec[0] == 'map':
        return 'Opaque' in spec[1:]
    return any(n in ('opaque', 'faulty_opaque') for n in spec[1:])


# ---------------------------------------------------------------------------------------------
# conditions pool (pure predicates)

def _conditions():
    from pane.annotations import Positive, NonNegative, Negative, NonEmpty, Empty, Finite, val_range, len_range
    return {
        'Positive': Positive, 'NonNegative': NonNegative, 'Negative': Negative,
        'NonEmpty': NonEmpty, 'Empty': Empty, 'Finite': Finite,
        'range0_10': _COND_CACHE.setdefault('range0_10', val_range(min=0, max=10)),
        'len1_3': _COND_CACHE.setdefault('len1_3', len_range(min=1, max=3)),
        # a user condition whose predicate *raises* for some values ('' -> IndexError): the error tree then carries a
        # captured cause, traceback chain included
        'first_upper': _COND_CACHE.setdefault('first_upper', _first_upper_condition()),
        # conditions made by ONE user factory: same name, same code, different captured values - equal-looking, not equal
        'oneof_ab': _COND_CACHE.setdefault('oneof_ab', _one_of('a', 'b')),
        'oneof_xy': _COND_CACHE.setdefault('oneof_xy', _one_of('x', 'y')),
        'oneof_ax': _COND_CACHE.setdefault('oneof_ax', _one_of('a', 'x')),
    }


ONEOF = {'oneof_ab': ('a', 'b'), 'oneof_xy': ('x', 'y'), 'oneof_ax': ('a', 'x')}


def _one_of(*allowed):
    from pane.annotations import Condition
    return Condition(lambda v: v in allowed, 'an allowed value')


def _first_upper(s):
    return s[0].isupper()


def _first_upper_condition():
    from pane.annotations import Condition
    return Condition(_first_upper, 'capitalized')


_COND_CACHE: t.Dict[str, t.Any] = {}
NUM_CONDS = ('Positive', 'NonNegative', 'Negative', 'range0_10')
LEN_CONDS = ('NonEmpty', 'Empty', 'len1_3')


# ---------------------------------------------------------------------------------------------
# world: classes, enums, typevars defined during a run

TYPEVARS = {n: t.TypeVar(n) for n in ('T', 'U')}
TYPEVARS['B'] = t.TypeVar('B', bound=int)
TYPEVARS['K'] = t.TypeVar('K', int, str)


class World:
    def __init__(self):
        self.classes: t.Dict[str, type] = {}
        self.class_specs: t.Dict[str, dict] = {}
        self.enums: t.Dict[str, type] = {}
        self.enum_specs: t.Dict[str, dict] = {}
        self.refs: t.Dict[str, t.Any] = {}   # roots addressable from ["ref", name]
        self.faulty = {}                      # extra handler pool (FaultyHandler instances)

    def clear(self):
        self.classes.clear()
        self.class_specs.clear()
        self.enums.clear()
        self.enum_specs.clear()
        self.refs.clear()


class _StrMixinEnum(str, enum.Enum):
    """Members compare and hash as their string values (what enum.StrEnum does)."""


def define_enum(spec: dict, world: World):
    members = {n: dec(v) for (n, v) in spec['members']}
    base = {'int': enum.IntEnum, 'str': _StrMixinEnum}.get(spec.get('kind'), enum.Enum)
    e = base(spec.get('pyname') or spec['name'], members, module='simworld')
    world.enums[spec['name']] = e
    world.enum_specs[spec['name']] = spec
    return e


def define_class(spec: dict, world: World):
    """
    spec = {name, fields:[{n, t, d?, df?, kw?, alias?, rename?, exclude?}], opts:{...}, tv:[..],
            base: ast|None, custom: handler spec|None, post_init: None|'x_nonneg'}
    """
    pane = _p()
    ann: t.Dict[str, t.Any] = {}
    ns: t.Dict[str, t.Any] = {}
    for f in spec['fields']:
        ann[f['n']] = build(f['t'], world)
        kw: t.Dict[str, t.Any] = {}
        if 'd' in f:
            kw['default'] = dec(f['d'])
        if 'df' in f:
            kw['default_factory'] = {'list': list, 'dict': dict}[f['df']]
        if f.get('kw'):
            kw['kw_only'] = True
        if f.get('alias'):
            kw['aliases'] = list(f['alias'])
        if f.get('rename'):
            kw['rename'] = f['rename']
        if f.get('exclude'):
            kw['exclude'] = True
        if set(kw) - {'default'}:
            ns[f['n']] = pane.field(**kw)
        elif 'default' in kw:
            ns[f['n']] = kw['default']
    if spec.get('strann'):
        mod = sys.modules.get('simworld')
        if mod is None:
            mod = sys.modules['simworld'] = types.ModuleType('simworld')
        for i, f in enumerate(spec['fields']):
            T = ann[f['n']]
            if isinstance(T, (tuple, dict)):
                continue            # struct / tuple type literals cannot be named by a forward reference
            name = f'_a{i}'
            if spec['strann'] == 'mixed' and i % 2 == 0:
                mod.__dict__[name] = T
            else:
                ns[name] = T
            ann[f['n']] = name
    ns['__annotations__'] = ann
    ns['__module__'] = 'simworld'
    pi = spec.get('post_init')
    if pi == 'first_nonneg':
        first = spec['fields'][0]['n'] if spec['fields'] else None

        def __post_init__(self, _first=first):
            if _first is not None:
                v = getattr(self, _first)
                if isinstance(v, (int, float)) and v < 0:
                    raise ValueError(f"{_first} must be non-negative")
        ns['__post_init__'] = __post_init__
    elif pi == 'fill_df':
        # a hook that fills a derived container in place (an index, a tag list): legitimate for a container that the
        # instance owns - every instance must get its own from `default_factory`
        dfs = [f['n'] for f in spec['fields'] if 'df' in f]

        def __post_init__(self, _dfs=tuple(dfs)):
            given = getattr(self, '__pane_set__', None) or ()
            for n in _dfs:
                if n in given:
                    continue        # a container that came with the input may be the caller's own object: hooks are pure
                c = getattr(self, n, None)
                if isinstance(c, list):
                    c.append(len(c))
                elif isinstance(c, dict):
                    c[f'k{len(c)}'] = len(c)
        ns['__post_init__'] = __post_init__

    bases: t.List[t.Any] = []
    if spec.get('base') is not None:
        bases.append(build(spec['base'], world))
    else:
        bases.append(pane.PaneBase)
    tv = spec.get('tv') or []
    if tv:
        bases.append(t.Generic[tuple(TYPEVARS[n] for n in tv)])  # type: ignore
    kwds: t.Dict[str, t.Any] = {}
    opts = spec.get('opts') or {}
    for k in ('in_format', 'out_format', 'rename', 'in_rename', 'out_rename', 'allow_extra', 'kw_only',
              'frozen', 'eq', 'order'):
        if k in opts and opts[k] is not None:
            v = opts[k]
            kwds[k] = tuple(v) if isinstance(v, list) else v
    if spec.get('custom') is not None:
        kwds['custom'] = build_handlers(spec['custom'], world.faulty)
    cls = types.new_class(spec.get('pyname') or spec['name'], tuple(bases), kwds, lambda n: n.update(ns))
    world.classes[spec['name']] = cls
    world.class_specs[spec['name']] = spec
    return cls


# ---------------------------------------------------------------------------------------------
# building type objects from ASTs

def build(ast, world: World):
    k = ast[0]
    if k == 's':
        return SCALARS[ast[1]]
    if k == 'ref':
        return world.refs[ast[1]]
    if k == 'cls':
        return world.classes[ast[1]]
    if k == 'enum':
        return world.enums[ast[1]]
    if k == 'tv':
        return TYPEVARS[ast[1]]
    if k == 'lit':
        return t.Literal[tuple(dec(v) for v in ast[1:])]  # type: ignore
    if k == 'tl':
        return tuple(build(a, world) for a in ast[1:])
    if k == 'dl':
        return {name: build(a, world) for (name, a) in ast[1]}
    if k == 'ann':
        return t.Annotated[(build(ast[1], world),) + tuple(_conditions()[c] for c in ast[2:])]  # type: ignore  # one or more conditions
    if k == 'tagged':
        from pane.annotations import Tagged
        ext = ast[2]
        if isinstance(ext, list):
            ext = tuple(ext)
        members = tuple(build(a, world) for a in ast[3:])
        return t.Annotated[t.Union[members], Tagged(ast[1], ext)]  # type: ignore
    if k == 'gen':
        cls = world.classes[ast[1]]
        params = tuple(build(a, world) for a in ast[2:])
        return cls[params if len(params) != 1 else params[0]]
    if k == 'gen2':
        # re-subscription of a partially bound generic that is itself a root: refs[name][params]
        cls = world.refs[ast[1]]
        params = tuple(build(a, world) for a in ast[2:])
        return cls[params if len(params) != 1 else params[0]]
    args = [build(a, world) for a in ast[1:]]
    if k == 'list':
        return list[args[0]]
    if k == 'set':
        return set[args[0]]
    if k == 'frozenset':
        return frozenset[args[0]]
    if k == 'vtuple':
        return tuple[args[0], ...]
    if k == 'tuple':
        return tuple[tuple(args)]  # type: ignore
    if k == 'dict':
        return dict[args[0], args[1]]
    if k == 'odict':
        import collections
        return t.OrderedDict[args[0], args[1]] if len(ast) % 2 else collections.OrderedDict[args[0], args[1]]
    if k == 'tlist':
        return t.List[args[0]]
    if k == 'tset':
        return t.Set[args[0]]
    if k == 'tseq':
        return t.Sequence[args[0]]
    if k == 'tvtuple':
        return t.Tuple[args[0], ...]
    if k == 'ttuple':
        return t.Tuple[tuple(args)]  # type: ignore
    if k == 'tdict':
        return t.Dict[args[0], args[1]]
    if k == 'tmap':
        return t.Mapping[args[0], args[1]]
    if k == 'opt':
        return t.Optional[args[0]]
    if k in ('union', 'runion'):
        return t.Union[tuple(args)]  # type: ignore
    if k == 'vol':
        from pane.types import ValueOrList
        return ValueOrList[args[0]]
    if k == 'range':
        from pane.types import Range
        return Range[args[0]]
    raise HarnessError(f"build: unknown node {ast!r}")


# ---------------------------------------------------------------------------------------------
# sampling data values for a type AST (workload only; the oracle never trusts validity)

ASCII_WORDS = ['', 'a', 'abc', 'x y', 'no', 'null', '1e3', '0x1f', '1:30', '.inf', 'true', '~', '- a', 'k: v',
               '# c', '&a', '*a', '!t', '| b', '> f', '%d', '@a', '[x]', '{y}', "it's", 'say "hi"', ' lead', 'trail ',
               '2023-09-05', '11:11:11', '1/5', '5.25', '---', '...']
UNI_WORDS = ['é', 'ü-ß', '日本語', '\U0001f600', 'a\nb', 'tab\there', '\x85nel', ' ls', '﻿bom', 'nullé',
             'Ω≈ç√', 'á', 'line1\nline2\n', '\r\n', 'ctrl\x07', '\x00nul', '퟿', '',
             # one text, several codings: normalisation (NFC/NFKC), case folding or white-space tidying changes these
             'e\u0301', '\u00e9', '\ufb01', '\uff11\uff12', 'A\u030a', '\u212b', 'a\u200bb', 'x\u00a0y', '\u00df', 'SS', '\u0130', 'i\u0307',
             'trail\u3000', '\u2003lead', 'a\u2029b', '\ud7ff\ue000', 'Straße', 'STRASSE']


LOOKALIKE_WORDS = ['1e3', '2E5', '1.5e3', '-2e-3', '12e4567', 'NaN', 'nan', 'Infinity', '-Infinity', '.inf', '-.INF', '.NaN',
                   '0o17', '017', '0b101', '1_000', '+1', '.5', '5.', '0x1F', '1:30:00', '190:20:30.15', 'yes', 'No', 'ON', 'off',
                   'y', 'n', '~', 'null', 'Null', 'NULL', 'TRUE', 'false', '=', '<<', '2001-12-14', '2001-12-14t21:59:43.10-05:00',
                   '1e+3', '1.0', '-0', '0.', '1e', 'e5', '1,000', '[1]', '{a: 1}', '"q"', "'s'", '!!str x', '&a b', '*a',
                   '? k', ': v', '- i', '@at', '`bt', '%TAG', '---', '...', '# not a comment', 'a: b', 'a #b', 'a:', ' ', '',
                   # fragments of JSON / YAML syntax inside a string: a text-level pre- or post-pass over the document
                   # (a regex that "repairs" trailing commas, strips comments, normalises white space) rewrites them
                   ',]', ', }', '[1, 2,]', '{"a": 1,}', '\\d{2,}', 'a{1, }', 'f(x)[1:,]', '/* c */', '// c', 'a //b', '\\', '\\n',
                   '\\u00e9', 'a\tb', ' lead', 'trail ', 'two  spaces', 'line1\nline2', 'ends\n', '\n', 'a\r\nb', '"', "'", "it's",
                   '""', '{', '}', '[', ']', ',', ':', '- ', '|', '>', '>-', '|+', 'NaN,', 'null,', 'true]', '"k": "v"', "{'a': 'b'}",
                   '<!-- x -->', '${HOME}', '%(x)s', '{0}', '{{x}}', '\x00'.replace('\x00', 'nul?'),
                   # document markers / directives inside multi-line values
                   'a\n---\nb', 'a\n...\nb', '---\nx', 'x\n---', '%YAML 1.1', 'a\n%TAG b', '--- |', '... ', 'k: |\n  v', '- a\n- b',
                   '2001-12-14 21:59:43.10 -5', '2002-12-14', '12:30:45', '0:0', '!!binary aGk=', '!!python/name:os.system', '!!set {a}']


NUMLIKE_WORDS = ['1e3', '2E5', '1.5e3', '-2e-3', '12e4567', 'NaN', 'Infinity', '-Infinity', '1e+3', '1E400', '0e0', '1e-7',
                 '123e1', '5e0', '-1E5', '9e99', '1e3', '2E5', '-0', '1.0', '1', 'true', 'null', '0x10', '1_0', '01', '1.', '.1']


def sample_str(rng, alphabet='mixed'):
    if alphabet == 'numlike':
        return rng.choice(NUMLIKE_WORDS)
    if alphabet == 'lookalike':
        w = rng.choice(LOOKALIKE_WORDS)
        if rng.random() < 0.1:
            w = w + rng.choice(['', ' ', 'x', 'é'])
        return w
    r = rng.random()
    if alphabet == 'ascii' or (alphabet == 'mixed' and r < 0.5):
        w = rng.choice(ASCII_WORDS)
    else:
        w = rng.choice(UNI_WORDS)
    if rng.random() < 0.2:
        w = w + rng.choice(ASCII_WORDS if alphabet == 'ascii' else ASCII_WORDS + UNI_WORDS)
    return w


def sample_int(rng):
    return rng.choice([0, 1, -1, 2, 3, 7, 10, -5, 255, 2**31, -2**63, 10**20, 4, 6, 2**53 + 1, -(2**53) - 1, 9007199254740993, 10**15 + 1])


def sample_float(rng):
    return rng.choice([0.0, -0.0, 1.5, -2.25, 1e300, 1e-300, float('inf'), float('-inf'), 3.0, 0.1, 5.0,
                       # need all 17 significant digits / an exponent / sit next to a power of two
                       0.1 + 0.2, 1 / 3, 2 / 3, 1.0000000000000002, 123456789.12345678, 5e-324, 1.7976931348623157e308,
                       1e16, 1e22, 1e23, 9007199254740993.0, 4.35, 2.675, 1e-7, 123456.789e3])


JUNK = [None, True, 0, -3, 1.5, 'junk', b'by', [], [1, 'a'], {'k': 1}, (1, 2), [[1]], {'x': {'y': 2}}, '5', [None],
        {'n': 250, 'm': {'k': 3}}, [{'a': 1}, [2, 'b']], {'s': 'txt', 'l': [1, 2]}]


def _near_miss(ast, world, rng, rec):
    """A value of the *right run-time type* that the constrained node `ast` (literal, enum, condition) must still
    reject: what a converter that has stopped looking at values (and only looks at their types) would let through."""
    k = ast[0]
    if k in ('lit', 'enum'):
        members = [dec(m) for m in ast[1:]] if k == 'lit' else [dec(m[1]) for m in world.enum_specs[ast[1]]['members']]
        m = rng.choice(members)
        if isinstance(m, bool) or m is None:
            return rng.choice(['junk', 2])
        if isinstance(m, str):
            out = m + rng.choice(['x', '_', ' '])
            return out if out not in members else m + 'zz'
        if isinstance(m, (int, float)):
            nums = [x for x in members if isinstance(x, (int, float)) and not isinstance(x, bool)]
            return type(m)(max(nums) + rng.choice([1, 7]))
        return 'junk'
    if k == 'ann':
        cond = ast[2]
        inner = ast[1]
        if cond == 'first_upper':
            return rng.choice(['', '', 'lower', '1st'])
        if cond in ONEOF:
            return rng.choice([w for w in ('a', 'b', 'x', 'y', 'q') if w not in ONEOF[cond]])
        if cond in NUM_CONDS:
            f = float if inner == ['s', 'float'] else int
            return {'Positive': f(rng.choice([0, -1, -12])), 'NonNegative': f(rng.choice([-1, -5])),
                    'Negative': f(rng.choice([0, 3])), 'range0_10': f(rng.choice([11, -1, 250]))}[cond]
        if cond == 'NonEmpty':
            return []
        if cond == 'Empty':
            return [rec(inner[1])]
        if cond == 'len1_3':
            return [rec(inner[1]) for _ in range(rng.choice([4, 5]))] if rng.random() < 0.7 else []
    return rng.choice(JUNK)


def sample_value(ast, world: World, rng, valid_p=0.8, alphabet='mixed', depth=0, near_p=0.0):
    """Return an interchange value aimed at (but not guaranteed to be in) the type `ast`.
    `near_p`: probability that a constrained node (literal, enum, condition) gets a same-type non-member instead."""
    if rng.random() > valid_p:
        return rng.choice(JUNK)
    k = ast[0]
    rec = lambda a: sample_value(a, world, rng, valid_p, alphabet, depth + 1, near_p)  # noqa
    if near_p and k in ('lit', 'enum', 'ann') and rng.random() < near_p:
        return _near_miss(ast, world, rng, lambda a: sample_value(a, world, rng, valid_p, alphabet, depth + 1, 0.0))
    n_items = lambda: rng.choice([0, 1, 1, 2, 3]) if depth < 3 else rng.choice([0, 1])  # noqa
    if k == 's':
        n = ast[1]
        if n == 'int':
            return sample_int(rng)
        if n == 'float':
            return sample_float(rng) if rng.random() < 0.8 else sample_int(rng)
        if n == 'complex':
            return rng.choice([1j, 2 + 3j, 1.5, 4])
        if n == 'str':
            return sample_str(rng, alphabet)
        if n == 'bool':
            return rng.choice([True, False, 1, 0])
        if n == 'bytes':
            return rng.choice([b'', b'abc', b'\x00\xff', bytearray(b'ba')])
        if n == 'none':
            return None
        if n == 'Fraction':
            return rng.choice(['1/5', '3', 5, 0.5, '-7/3'])
        if n == 'Decimal':
            return rng.choice(['1.10', '5', 5, '1e5', '-0.001'])
        if n == 'date':
            return rng.choice(['2023-09-05', '1999-12-31', '2024-02-29'])
        if n == 'datetime':
            return rng.choice(['2023-09-05 11:11:11', '1999-12-31T23:59:59', '2024-02-29T00:00:00+00:00'])
        if n == 'time':
            return rng.choice(['11:11:11', '23:59:59.123456', '00:00'])
        if n == 'PurePath':
            return rng.choice(['test/path', '/abs/p', '.', 'a b/c'])
        if n == 'Pattern':
            return rng.choice(['abc', 'a.*b', '[0-9]+', '(x|y)'])
        if n == 'any':
            return rng.choice(JUNK)
        if n == 'Opaque':
            return rng.choice([1, 'op', 7, 'q'])
        if n == 'IdInt':
            return rng.choice([1, 12, -3, '12', 2.5])
        if n == 'IdFloat':
            return rng.choice([2.5, 1, -0.5, 'x'])
        if n == 'IdDecimal':
            return rng.choice(['1.50', '12', 3, 'x'])
        if n == 'IdFraction':
            return rng.choice(['1/3', '12', 5, 0.5])
    if k == 'ref':
        raise HarnessError("sample_value: refs must be resolved by the caller")
    if k in ('list', 'tlist', 'tseq', 'vtuple', 'tvtuple', 'set', 'tset', 'frozenset'):
        items = [rec(ast[1]) for _ in range(n_items())]
        if k in ('set', 'tset', 'frozenset'):
            # sets are given as sequences of distinct hashable items
            out = []
            for it in items:
                try:
                    if it not in out:
                        hash(it)
                        out.append(it)
                except TypeError:
                    pass
            items = out
        return tuple(items) if rng.random() < 0.3 else items
    if k in ('tuple', 'ttuple', 'tl'):
        items = [rec(a) for a in ast[1:]]
        if rng.random() > valid_p:
            items = items[:-1] if items else [1]
        return tuple(items) if rng.random() < 0.3 else items
    if k in ('dict', 'tdict', 'tmap', 'odict'):
        d = {}
        for _ in range(n_items()):
            kk = rec(ast[1])
            try:
                hash(kk)
            except TypeError:
                continue
            d[kk] = rec(ast[2])
        return d
    if k == 'dl':
        d = {name: rec(a) for (name, a) in ast[1]}
        if rng.random() > valid_p and d:
            d.pop(next(iter(d)))
        return d
    if k == 'opt':
        return None if rng.random() < 0.3 else rec(ast[1])
    if k in ('union', 'runion'):
        return rec(rng.choice(ast[1:]))
    if k == 'lit':
        return dec(rng.choice(ast[1:]))
    if k == 'ann':
        if ast[2] in ONEOF:
            return rng.choice(ONEOF[ast[2]])
        if ast[2] == 'first_upper':
            return rng.choice(['Abc', 'Zed', 'Éclair', 'X y', 'Q', 'Ünder', 'A\u0301', 'Ω']) if rng.random() < 0.85 else rec(ast[1])
        return rec(ast[1])
    if k == 'vol':
        return rec(ast[1]) if rng.random() < 0.5 else [rec(ast[1]) for _ in range(n_items())]
    if k == 'range':
        if ast[1] == ['s', 'float']:
            return rng.choice([{'start': 0.0, 'end': 1.0, 'n': 5}, {'start': 0.5, 'end': 2.5, 'step': 0.5}, [0.0, 3.0, 4]])
        return rng.choice([{'start': 0, 'end': 10, 'n': 11}, [0, 4, 3], {'start': 0, 'end': 6, 'step': 2}])
    if k == 'enum':
        spec = world.enum_specs[ast[1]]
        return dec(rng.choice(spec['members'])[1])
    if k == 'cls':
        return sample_instance_data(world.class_specs[ast[1]], {}, world, rng, valid_p, alphabet, depth, near_p)
    if k == 'gen':
        spec = world.class_specs[ast[1]]
        binding = dict(zip(all_typevars(spec, world), ast[2:]))
        return sample_instance_data(spec, binding, world, rng, valid_p, alphabet, depth, near_p)
    if k == 'tv':
        if ast[1] == 'B':
            return sample_int(rng)
        if ast[1] == 'K':
            return rng.choice([sample_int(rng), sample_str(rng, alphabet)])
        return rng.choice(JUNK)
    if k == 'tagged':
        member = rng.choice(ast[3:])
        body = rec(member)
        ext = ast[2]
        spec = world.class_specs.get(member[1]) if member[0] == 'cls' else None
        tagval = None
        if spec is not None:
            for f in spec['fields']:
                if f['n'] == ast[1] and 'd' in f:
                    tagval = dec(f['d'])
        if isinstance(body, dict):
            if ext is False:
                body = dict(body)
                body[ast[1]] = tagval
                return body
            body = {kk: vv for (kk, vv) in body.items() if kk != ast[1]}
            if ext is True:
                return {tagval: body}
            return {ext[0]: tagval, ext[1]: body}
        return body
    raise HarnessError(f"sample_value: unknown node {ast!r}")


def all_typevars(spec, world):
    """Type variables of a class spec in declaration order (own list only; bases bind theirs)."""
    return list(spec.get('tv') or [])


def subst(ast, binding):
    if ast[0] == 'tv':
        return binding.get(ast[1], ['s', 'any'])
    if ast[0] in ('s', 'cls', 'enum', 'lit', 'ref'):
        return ast
    if ast[0] == 'dl':
        return ['dl', [[n, subst(a, binding)] for (n, a) in ast[1]]]
    if ast[0] == 'ann':
        return ['ann', subst(ast[1], binding)] + list(ast[2:])
    if ast[0] in ('gen', 'gen2'):
        return [ast[0], ast[1]] + [subst(a, binding) for a in ast[2:]]
    if ast[0] == 'tagged':
        return ast[:3] + [subst(a, binding) for a in ast[3:]]
    return [ast[0]] + [subst(a, binding) for a in ast[1:]]


def effective_fields(spec, binding, world):
    """Fields of a class spec including inherited ones, with type variables substituted."""
    fields = []
    base = spec.get('base')
    if base is not None:
        bspec = world.class_specs[base[1]]
        bbind = {}
        if base[0] == 'gen':
            bbind = dict(zip(all_typevars(bspec, world), [subst(a, binding) for a in base[2:]]))
        fields.extend(effective_fields(bspec, bbind, world))
    own = [dict(f, t=subst(f['t'], binding)) for f in spec['fields']]
    names = [f['n'] for f in fields]
    for f in own:
        if f['n'] in names:
            fields[names.index(f['n'])] = f
        else:
            fields.append(f)
    return fields


def sample_instance_data(spec, binding, world, rng, valid_p, alphabet, depth, near_p=0.0):
    fields = effective_fields(spec, binding, world)
    opts = spec.get('opts') or {}
    in_format = opts.get('in_format') or ['struct']
    layout = rng.choice(list(in_format))
    rec = lambda a: sample_value(a, world, rng, valid_p, alphabet, depth + 1, near_p)  # noqa
    if layout == 'tuple':
        vals = []
        for f in fields:
            if f.get('kw'):
                continue
            if ('d' in f or 'df' in f) and rng.random() < 0.4:
                break
            vals.append(rec(f['t']))
        return vals
    d = {}
    rename = opts.get('rename') or None
    for f in fields:
        if ('d' in f or 'df' in f) and rng.random() < 0.4:
            continue
        name = f['n']
        if f.get('rename'):
            name = f['rename']
        elif f.get('alias') and rng.random() < 0.5:
            name = rng.choice(f['alias'])
        elif rename:
            from pane.field import rename_field
            name = rename_field(name, rename)
        d[name] = rec(f['t'])
    if rng.random() > valid_p:
        d['zz_extra'] = 1
    return d


# ---------------------------------------------------------------------------------------------
# random type expressions

LEAF_SCALARS = ['int', 'float', 'str', 'bool', 'none', 'Fraction', 'Decimal', 'date', 'datetime', 'time',
                'PurePath', 'Pattern', 'bytes', 'complex', 'any']

ALL_KINDS = ['odict', 'tvar', 'tagged', 'list', 'set', 'vtuple', 'tuple', 'dict', 'tlist', 'tset', 'tseq', 'tvtuple', 'ttuple', 'tdict', 'tmap',
             'opt', 'union', 'lit', 'ann', 'tl', 'dl', 'cls', 'enum', 'gen', 'vol', 'range', 'frozenset']


def gen_type(rng, world: World, kinds, scalars, depth=0, max_depth=3, top=True, allow_literals=None):
    return normalise_unions(_gen_type(rng, world, kinds, scalars, depth, max_depth, top, allow_literals))


def _gen_type(rng, world: World, kinds, scalars, depth=0, max_depth=3, top=True, allow_literals=None):
    """
    Random type AST.  `kinds` is the enabled subset of ALL_KINDS, `scalars` the enabled leaf names.
    Tuple/dict literals only at top level or directly inside another literal (t.List[(a, b)] is
    two arguments to Python, not a tuple literal).
    """
    if allow_literals is None:
        allow_literals = top
    avail = [k for k in kinds if (k not in ('tl', 'dl') or allow_literals)]
    avail = [k for k in avail if not (k == 'cls' and not world.classes)]
    avail = [k for k in avail if not (k == 'enum' and not world.enums)]
    avail = [k for k in avail if not (k == 'gen' and not any(s.get('tv') for s in world.class_specs.values()))]
    if depth >= max_depth or not avail or rng.random() < (0.25 + 0.15 * depth):
        return ['s', rng.choice(scalars)]
    k = rng.choice(avail)
    sub = lambda lit=False: _gen_type(rng, world, kinds, scalars, depth + 1, max_depth, False, lit)  # noqa
    if k in ('list', 'vtuple', 'tlist', 'tseq', 'tvtuple', 'opt', 'vol'):
        return [k, sub()]
    if k in ('set', 'tset', 'frozenset'):
        return [k, ['s', rng.choice([s for s in scalars if s in ('int', 'str', 'float', 'Fraction', 'date')] or ['int'])]]
    if k in ('tuple', 'ttuple'):
        return [k] + [sub() for _ in range(rng.choice([1, 2, 2, 3]))]
    if k in ('dict', 'tdict', 'tmap', 'odict'):
        if rng.random() < 0.15 and 'float' in scalars:
            # keys that are not strings or ints (JSON cannot hold them; YAML keeps their type)
            return [k, rng.choice([['s', 'float'], ['opt', ['s', 'str']], ['s', 'bool']]), sub()]
        return [k, ['s', rng.choice([s for s in scalars if s in ('str', 'int')] or ['str'])], sub()]
    if k == 'union':
        if rng.random() < 0.35:
            # members that share a runtime container type but convert / serialise their elements differently
            shape = rng.choice(['list', 'tlist', 'dict', 'vtuple'])
            elems = rng.sample([e for e in ('int', 'str', 'Fraction', 'date', 'float', 'Decimal') if e in scalars] or ['int', 'str'],
                               2) if len(set(scalars) & {'int', 'str', 'Fraction', 'date', 'float', 'Decimal'}) >= 2 else ['int', 'str']
            if shape == 'dict':
                return ['union'] + [['dict', ['s', 'str'], ['s', e]] for e in elems]
            return ['union'] + [[shape, ['s', e]] for e in elems]
        return ['union'] + [sub() for _ in range(rng.choice([2, 2, 3]))]
    if k == 'lit':
        pool = ['a', 'b', 'c', 1, 2, True, None, 'é']
        n = rng.choice([1, 2, 3])
        return ['lit'] + rng.sample(pool, n)
    if k == 'ann':
        if rng.random() < 0.5:
            return ['ann', ['s', rng.choice(['int', 'float'])], rng.choice(NUM_CONDS)]
        if 'str' in scalars and rng.random() < 0.25:
            return ['ann', ['s', 'str'], rng.choice(['first_upper', 'first_upper', 'oneof_ab', 'oneof_xy', 'oneof_ax'])]
        return ['ann', [rng.choice(['list', 'tlist']), sub()], rng.choice(LEN_CONDS)]
    if k == 'tl':
        return ['tl'] + [sub(True) for _ in range(rng.choice([1, 2, 2, 3]))]
    if k == 'dl':
        names = rng.sample(['a', 'b', 'c', 'd'], rng.choice([1, 2, 2, 3]))
        return ['dl', [[n, sub(True)] for n in names]]
    if k == 'cls':
        cands = [n for (n, s) in world.class_specs.items() if not s.get('tv')]
        if not cands:
            return ['s', rng.choice(scalars)]
        return ['cls', rng.choice(cands)]
    if k == 'enum':
        return ['enum', rng.choice(list(world.enums))]
    if k == 'gen':
        cands = [n for (n, s) in world.class_specs.items() if s.get('tv')]
        name = rng.choice(cands)
        ntv = len(world.class_specs[name]['tv'])
        return ['gen', name] + [_gen_type(rng, world, [x for x in kinds if x not in ('tl', 'dl', 'gen')], scalars,
                                         depth + 1, max_depth, False, False) for _ in range(ntv)]
    if k == 'range':
        return ['range', ['s', rng.choice(['int', 'float'])]]
    if k == 'tvar':
        return ['tv', rng.choice(['T', 'B', 'K', 'B', 'K'])]
    if k == 'tagged':
        tagged = [n for (n, sp) in world.class_specs.items() if sp.get('tag') and not sp.get('tv')]
        if len(tagged) < 2:
            return ['s', rng.choice(scalars)]
        members = rng.sample(tagged, 2)
        ext = rng.choice([False, False, True, ['t', 'c']])
        return ['tagged', 'kind', ext] + [['cls', m] for m in members]
    return ['s', rng.choice(scalars)]


def _flatten_union_members(ast, out):
    """Members of a union/optional expression, nested unions flattened (as typing does)."""
    if ast[0] == 'union':
        for a in ast[1:]:
            _flatten_union_members(a, out)
    elif ast[0] == 'opt':
        _flatten_union_members(ast[1], out)
        out.append(['s', 'none'])
    else:
        out.append(ast)


def normalise_unions(ast):
    """
    One canonical spelling per set of members.

    typing caches `List[...]`, `Optional[...]`, `Annotated[...]`, `Generic[...]` aliases by *equality* of their
    arguments; unions and literals compare as sets.  So `List[Union[str, int]]` built after
    `List[Union[int, str]]` *is* the first object, and which member order a type has depends on what the
    process built before - typing's conflation, not pane's, and pane cannot see it (it receives one object).
    The reference worlds (freshly defined classes; a pristine process) do not share that cache state, so the
    workload never spells one member set in two orders: unions are flattened, de-duplicated and sorted,
    literal values sorted.  The one deliberate exception is the `runion` node used by the subscript-reorder
    scenario (top-level parameters of a generic dataclass, where typing's caches are not involved).
    """
    import json
    k = ast[0]
    if k in ('s', 'cls', 'enum', 'ref', 'tv'):
        return ast
    if k == 'lit':
        vals = []
        for v in ast[1:]:
            if v not in vals or any(type(v) is not type(w) for w in vals if w == v):
                vals.append(v)
        return ['lit'] + sorted(vals, key=lambda v: json.dumps([type(v).__name__, v]))
    if k == 'dl':
        return ['dl', [[n, normalise_unions(a)] for (n, a) in ast[1]]]
    if k == 'ann':
        return ['ann', normalise_unions(ast[1])] + list(ast[2:])
    if k in ('union', 'opt'):
        members = []
        _flatten_union_members(ast, members)
        out = []
        for m in members:
            m = normalise_unions(m)
            if m[0] == 'union':           # a member that normalised into a union again: flatten
                for mm in m[1:]:
                    if mm not in out:
                        out.append(mm)
            elif m not in out:
                out.append(m)
        out.sort(key=lambda a: json.dumps(a, sort_keys=True))
        return out[0] if len(out) == 1 else ['union'] + out
    start = {'gen': 2, 'gen2': 2, 'tagged': 3}.get(k, 1)
    kids = [normalise_unions(a) for a in ast[start:]]
    if k == 'tagged':
        kids = sorted(kids, key=lambda a: json.dumps(a, sort_keys=True))
    return ast[:start] + kids


def contains(ast, pred) -> bool:
    if pred(ast):
        return True
    if ast[0] in ('s', 'cls', 'enum', 'lit', 'ref', 'tv'):
        return False
    if ast[0] == 'dl':
        return any(contains(a, pred) for (_, a) in ast[1])
    if ast[0] == 'ann':
        return contains(ast[1], pred)
    start = {'gen': 2, 'gen2': 2, 'tagged': 3}.get(ast[0], 1)
    return any(contains(a, pred) for a in ast[start:])


def gen_enum_spec(rng, name):
    kind = rng.choice(['int', 'str', 'int', 'str', 'mixed'])
    if kind == 'int':
        members = [['A', 1], ['B', 2], ['C', 3]][:rng.choice([1, 2, 3])]
    elif kind == 'str':
        members = [['X', 'x'], ['Y', 'y'], ['Z', 'é']][:rng.choice([1, 2, 3])]
    else:
        members = [['A', 1], ['X', 'x']]
    spec = {'name': name, 'members': members}
    if rng.random() < 0.4:
        spec['pyname'] = rng.choice(['Mode', 'Mode', 'Kind'])      # different enums of a run may share their Python name
    if kind in ('int', 'str') and rng.random() < 0.35:
        spec['kind'] = kind         # IntEnum / str-mixin enum: members compare and hash as their values, across classes
    return spec


FIELD_NAMES = ['x', 'y', 'z', 'w', 'foo_bar', 'val']


def gen_class_spec(rng, world: World, name, kinds, scalars, generic_p=0.25, inherit_p=0.2,
                   custom_specs=(None,), tuple_p=0.3, nest_p=0.0, tag_p=0.0):
    tv = []
    if rng.random() < generic_p:
        tv = ['T'] if rng.random() < 0.7 else ['T', 'U']
    base = None
    cands = list(world.class_specs)
    if cands and rng.random() < inherit_p:
        bname = rng.choice(cands)
        bspec = world.class_specs[bname]
        if bspec.get('tv'):
            args = []
            for _ in bspec['tv']:
                if tv and rng.random() < 0.5:
                    args.append(['tv', rng.choice(tv)])
                else:
                    args.append(['s', rng.choice(['int', 'float', 'str'])])
            base = ['gen', bname] + args
        else:
            base = ['cls', bname]
    nf = rng.choice([1, 2, 2, 3])
    names = rng.sample(FIELD_NAMES, nf)
    fields = []
    in_format = ['struct']
    r = rng.random()
    if r < tuple_p:
        in_format = rng.choice([['tuple', 'struct'], ['tuple'], ['struct', 'tuple']])
    inner_kinds = [k for k in kinds if k not in ('tl', 'dl')]
    have_default = bool(base)  # keep it simple: fields after an inherited class all get defaults
    for i, n in enumerate(names):
        if tv and (i == 0 or rng.random() < 0.4):
            tvn = tv[min(i, len(tv) - 1)] if i < len(tv) else rng.choice(tv)
            ft = rng.choice([['tv', tvn], ['list', ['tv', tvn]], ['opt', ['tv', tvn]], ['tv', tvn],
                             ['opt', ['list', ['tv', tvn]]], ['opt', ['dict', ['s', 'str'], ['tv', tvn]]], ['union', ['list', ['tv', tvn]], ['s', 'str']]])
        elif nest_p and rng.random() < nest_p and any(not sp.get('tv') for sp in world.class_specs.values()):
            inner = rng.choice([nm for (nm, sp) in world.class_specs.items() if not sp.get('tv')])
            ft = rng.choice([['cls', inner], ['cls', inner], ['list', ['cls', inner]], ['opt', ['cls', inner]]])
        elif nest_p and rng.random() < 0.4:
            ft = ['s', rng.choice(['int', 'str', 'int', 'float'])]
        else:
            ft = gen_type(rng, world, inner_kinds, scalars, depth=1, max_depth=3, top=False)
        f = {'n': n, 't': ft}
        if have_default or rng.random() < 0.35:
            have_default = True
            if ft[0] == 's' and ft[1] == 'int':
                f['d'] = rng.choice([0, 3, 4])
            elif ft[0] == 's' and ft[1] == 'float':
                f['d'] = enc(rng.choice([1.5, 0.0]))
            elif ft[0] == 's' and ft[1] == 'str':
                f['d'] = rng.choice(['d', ''])
            elif ft[0] in ('list', 'tlist') and rng.random() < 0.5:
                f['df'] = 'list'
            else:
                if ft[0] != 'opt':
                    ft = f['t'] = ['opt', ft]
                f['d'] = None
        if rng.random() < 0.15:
            f['alias'] = [n + '_alias']
        elif rng.random() < 0.08:
            f['rename'] = n + 'R'
        if rng.random() < 0.1 and 'tuple' not in in_format:
            f['kw'] = True
        fields.append(f)
    opts = {'in_format': in_format if in_format != ['struct'] else None,
            'out_format': rng.choice(['tuple', 'struct']) if 'tuple' in in_format else None,
            'rename': rng.choice([None, None, None, 'camel', 'kebab', 'scream']),
            'allow_extra': rng.choice([None, None, True])}
    if 'struct' not in in_format:
        opts['out_format'] = 'tuple'
    if opts['out_format'] == 'struct' and 'struct' not in in_format:
        opts['out_format'] = 'tuple'
    spec = {'name': name, 'fields': fields, 'opts': {k: v for (k, v) in opts.items() if v is not None},
            'tv': tv, 'base': base, 'custom': rng.choice(list(custom_specs)),
            'post_init': 'first_nonneg' if rng.random() < 0.15 else None}
    if any('df' in f for f in fields) and rng.random() < 0.5:
        spec['post_init'] = 'fill_df'
    for f in spec['fields']:
        f['t'] = normalise_unions(f['t'])
    if tag_p and rng.random() < tag_p and not tv and not base and 'tuple' not in in_format and not opts.get('rename'):
        # a literal tag field with a default: the class can be a member of a tagged union
        spec['fields'].append({'n': 'kind', 't': ['lit', 'k' + name], 'd': 'k' + name})
        spec['tag'] = 'k' + name
    # annotations spelled as strings (what `from __future__ import annotations` makes of every annotation): the i-th
    # field of every such class is spelled '_a<i>', a name bound in the class body ('local') or, for even i, re-bound
    # in the defining module just before the class statement ('mixed') - one spelling, a different meaning per class
    r = rng.random()
    if r < 0.35:
        spec['strann'] = 'local' if r < 0.2 else 'mixed'
    # several *different* classes of a run may carry the same Python name (a class statement run again with other
    # fields, nested `Config` classes of different owners): whatever is remembered under a name or a repr collides
    if rng.random() < 0.4:
        spec['pyname'] = rng.choice(['Config', 'Config', 'Item'])
    return spec
