"""
C19 - JSON / YAML file round trip and stream ownership, under injected I/O faults.

plan (JSON) -> execute(plan) -> result.  A run is a pure function of its plan and the code.
"""
from __future__ import annotations

import gc
import io
import json
import os
import pathlib
import shutil
import sys
import tempfile

from . import typegen as tg
from .fingerprint import fp_value, mask
from .kernel import HarnessError, Streams, Trace, canon, h64
from .simfs import ChunkyText, Fault, FaultyStringIO, PipeText, SimFS, make_caller_wrapper, norm_encoding

PROP = 'C19'
LEGAL_FAULTS = ('short', 'EINTR')   # the io stack must absorb these: the operation sees nothing

RUN_CLASSES = ('faultfree', 'faulty', 'realdisk', 'long')

C19_KINDS = ['odict', 'list', 'tlist', 'tuple', 'ttuple', 'vtuple', 'dict', 'tdict', 'opt', 'union', 'lit', 'cls', 'enum',
             'gen', 'set', 'tseq', 'ann', 'vol', 'range', 'dl', 'tl']
C19_SCALARS = ['int', 'float', 'str', 'bool', 'none', 'Fraction', 'Decimal', 'date', 'datetime', 'time',
               'PurePath', 'bytes', 'str', 'int', 'str', 'Opaque']


# ---------------------------------------------------------------------------------------------
# plan generation

def gen_knobs(rng, cls):
    return {
        'buffer_size': rng.choice([1, 2, 7, 64, 8192, 8192]),
        'write_through': rng.random() < 0.3,
        'line_buffering': rng.random() < 0.2,
        'read_chunk': rng.choice([1, 3, 16, 1 << 20, 1 << 20]),
        'short_len': rng.choice([1, 2, 5]),
        'default_encoding': rng.choice(['ascii', 'latin-1', 'utf-16', 'cp1252']),
        'alphabet': rng.choice(['ascii', 'mixed', 'mixed', 'mixed', 'lookalike', 'lookalike', 'numlike']),
        'fmts': rng.choice([['json'], ['yaml'], ['json', 'yaml'], ['json', 'yaml']]),
        'wrapper_encoding': rng.choice(['utf-8', 'latin-1', 'utf-16', 'ascii', 'utf-8']),
        'wrapper_newline': rng.choice([None, '', '\n', '\r\n']),
        'n_kinds': rng.choice([3, 5, 8, len(C19_KINDS)]),
        'text_chunk': rng.choice([1, 3, 16, 100, 4096]),
        'fault_kinds': sorted(rng.sample(['ENOSPC', 'EIO', 'short', 'open', 'sticky', 'stream', 'EINTR', 'corrupt'], rng.choice([2, 3, 4, 6, 8]))),
    }


def gen_json_opts(rng):
    return {'indent': rng.choice([None, None, 0, 1, 2, 4, 8, '\t', '  ', 12, '--', '\t\t']), 'sort_keys': rng.random() < 0.3}


def gen_yaml_opts(rng, bare=False):
    o = {}
    if bare and rng.random() < 0.6:
        # a bare document (no '---', no '...'): the text starts with the value itself
        o['explicit_start'] = False
        if rng.random() < 0.5:
            o['default_flow_style'] = rng.choice([None, True])
        return o
    if rng.random() < 0.4:
        o['indent'] = rng.choice([None, 2, 3, 4, 8, 1, 9, 10, 12])
    if rng.random() < 0.4:
        o['width'] = rng.choice([None, 5, 20, 80, 200, 1, 2, 10**6])
    if rng.random() < 0.5:
        o['allow_unicode'] = rng.random() < 0.5
    if rng.random() < 0.45:
        o['explicit_start'] = rng.random() < 0.5
    if rng.random() < 0.3:
        o['explicit_end'] = rng.random() < 0.5
    if rng.random() < 0.4:
        o['default_style'] = rng.choice([None, '"', "'", '|', '>'])
    if rng.random() < 0.5:
        o['default_flow_style'] = rng.choice([None, True, False])
    if rng.random() < 0.3:
        o['sort_keys'] = rng.random() < 0.5
    return o


PATHKINDS = ['str', 'Path', 'str', 'Path', 'rel', 'relPath', 'dotdot']
SINKS_PATH = ['p0', 'p1', 'p2']     # p2 lives in another directory and can be reached through a symlinked directory + '..'
SINKS_STREAM = ['s0', 's1', 's2', 's3', 's4']   # StringIO, TextIOWrapper over SimRaw, FaultyStringIO, ChunkyText, PipeText (non-seekable)


def gen_plan(seed: int, cls: str) -> dict:
    long_run = cls == 'long'
    if long_run:
        cls = 'faulty'          # long histories on few sinks, faults interleaved
    st = Streams(seed)
    rk, ro, rf = st.rng('knobs'), st.rng('ops'), st.rng('fault')
    knobs = gen_knobs(rk, cls)
    kinds = rk.sample(C19_KINDS, knobs['n_kinds'])
    world = tg.World()
    defs = []
    tg._p()
    custom_specs = [None, None, None, ['one', 'dbl_int'], ['seq', 'upper_str', 'opaque'], ['map', 'int', 'Opaque']]
    for i in range(ro.choice([0, 1, 2, 3])):
        if ro.random() < 0.25:
            spec = tg.gen_enum_spec(ro, f'E{i}')
            try:
                tg.define_enum(spec, world)
                defs.append(['enum', spec])
            except Exception:
                pass
        else:
            spec = tg.gen_class_spec(ro, world, f'C{i}', [k for k in kinds if k not in ('tl', 'dl')], C19_SCALARS,
                                     custom_specs=[None, None, None, ['one', 'dbl_int'], ['one', 'opaque']])
            try:
                tg.define_class(spec, world)
                defs.append(['class', spec])
            except Exception:
                pass
    values = []
    ntypes = ro.choice([1, 2, 2, 3]) if not long_run else ro.choice([3, 4, 6])
    for _ in range(ntypes):
        r = ro.random()
        plain = [n for (n, s) in world.class_specs.items() if not s.get('tv')]
        if plain and r < 0.5:
            ast = ['cls', ro.choice(plain)]
        elif knobs['alphabet'] in ('lookalike', 'numlike') and r < 0.85:
            # scalar-resolution stress: plain containers of strings, where the emitter/parser pair alone decides
            ast = ro.choice([['list', ['s', 'str']], ['tvtuple', ['s', 'str']], ['dict', ['s', 'str'], ['s', 'str']],
                             ['list', ['list', ['s', 'str']]], ['s', 'str'], ['tuple', ['s', 'str'], ['s', 'str']],
                             ['list', ['s', 'any']], ['dict', ['s', 'str'], ['list', ['s', 'str']]], ['opt', ['s', 'str']]])
        else:
            ast = tg.gen_type(ro, world, kinds, C19_SCALARS, max_depth=3)
        force_none = False
        if ro.random() < 0.15:
            # a top-level None of an optional type: 'null' documents and empty documents look alike to a reader
            ast = tg.normalise_unions(['opt', ast])
            force_none = True
        custom = ro.choice(custom_specs)
        needs_opaque = tg.contains(ast, lambda a: a[0] == 's' and a[1] == 'Opaque') or _cls_uses_opaque(ast, world)
        if needs_opaque and not tg.handlers_cover_opaque(custom):
            custom = ro.choice([['one', 'opaque'], ['seq', 'defer_ni', 'opaque'], ['map', 'Opaque']])
        for j in range(ro.choice([1, 2, 3])):
            try:
                data = tg.sample_value(ast, world, ro, valid_p=1.0, alphabet=knobs['alphabet'])
                if force_none and j == 0:
                    data = None
                values.append({'t': ast, 'data': tg.enc(data), 'custom': custom})
            except HarnessError:
                pass
    if ro.random() < 0.04:
        # a document far larger than any buffer or chunk size in the stack (64 KiB .. 300 KiB)
        n = ro.choice([3000, 9000, 20000])
        kind = ro.choice(['ints', 'strs', 'map', 'unistrs', 'unistrs'])
        if kind == 'ints':
            values.append({'t': ['list', ['s', 'int']], 'data': [((i * 7919) % 100003) - 50000 for i in range(n)], 'custom': None, 'big': True})
        elif kind == 'unistrs':
            # dense multi-byte text with an irregular period: some character straddles every block boundary
            words = ['é', '日本', '\U0001f600', 'ü-ß', 'Ω≈', 'aé', 'ab', 'x']
            pad = 'y' * ro.randrange(7)
            values.append({'t': ['list', ['s', 'str']], 'data': [pad] + [words[(i * 5 + i // 7) % len(words)] for i in range(n)],
                           'custom': None, 'big': True})
        elif kind == 'strs':
            words = tg.ASCII_WORDS + (tg.UNI_WORDS if knobs['alphabet'] != 'ascii' else [])
            values.append({'t': ['list', ['s', 'str']], 'data': [words[(i * 31) % len(words)] + str(i % 97) for i in range(n)], 'custom': None, 'big': True})
        else:
            values.append({'t': ['dict', ['s', 'str'], ['s', 'int']], 'data': {'d': [[f'k{i}', i] for i in range(n)]}, 'custom': None, 'big': True})
    ops = []
    nops = ro.choice([1, 2, 3, 4, 6, 8, 12]) if not long_run else ro.choice([20, 30, 40, 60])
    sinks = SINKS_PATH + SINKS_STREAM + ['str0']
    if cls == 'realdisk':
        sinks = SINKS_PATH + ['s0']
    written = set()
    for i in range(nops):
        if not values:
            break
        r = ro.random()
        fmt = ro.choice(knobs['fmts'])
        if r < 0.5 or not written:
            sink = ro.choice(sinks)
            vi = ro.randrange(len(values))
            if values[-1].get('big') and ro.random() < 0.5:
                vi = len(values) - 1
            via = 'string' if sink == 'str0' else ro.choice(['func', 'func', 'method'])
            op = {'op': 'write', 'sink': sink, 'val': vi, 'fmt': fmt, 'via': via,
                  'opts': gen_json_opts(ro) if fmt == 'json' else gen_yaml_opts(ro, knobs['alphabet'] in ('numlike', 'lookalike')),
                  'pathkind': ro.choice(PATHKINDS), 'passty': ro.random() < 0.8,
                  'append': (fmt == 'yaml' and sink in SINKS_STREAM and ro.random() < 0.6)}
            written.add(sink)
        elif r < 0.85:
            src = ro.choice(sorted(written))
            op = {'op': 'read', 'src': src, 'via': ro.choice(['func', 'func', 'method']),
                  'pathkind': ro.choice(PATHKINDS)}
        elif r < 0.95:
            src = ro.choice(sorted(written))
            op = {'op': 'read_all', 'src': src, 'via': ro.choice(['func', 'method']),
                  'pathkind': ro.choice(PATHKINDS)}
        else:
            op = {'op': 'read', 'src': ro.choice(SINKS_PATH), 'via': 'func', 'pathkind': 'str'}  # maybe absent
        ops.append(op)
    # scenario: a multi-document YAML stream written by successive write_yaml calls, then read with from_yaml_all
    if 'yaml' in knobs['fmts'] and values and ro.random() < 0.35:
        by_type = {}
        for vi, v in enumerate(values):
            by_type.setdefault(canon([v['t'], v['custom']]), []).append(vi)
        cands = sorted(by_type.values(), key=lambda l: (-len(l), l))
        group = cands[0]
        sink = ro.choice(SINKS_STREAM + (['p0'] if ro.random() < 0.2 else [])) if cls != 'realdisk' else 's0'
        chain = []
        ndocs = ro.choice([1, 2, 2, 3, 4]) if sink != 'p0' else 1
        for j in range(ndocs):
            chain.append({'op': 'write', 'sink': sink, 'val': ro.choice(group), 'fmt': 'yaml', 'via': ro.choice(['func', 'method']),
                          'opts': gen_yaml_opts(ro), 'pathkind': 'str', 'passty': True, 'append': j > 0})
        chain.append({'op': 'read_all', 'src': sink, 'via': ro.choice(['func', 'method']), 'pathkind': ro.choice(PATHKINDS)})
        pos = ro.randrange(len(ops) + 1)
        ops[pos:pos] = chain
    if values and values[-1].get('big'):
        # make sure the big document actually travels: written to a path and a stream, and read back
        bi = len(values) - 1
        for sink in ([ro.choice(SINKS_PATH)] + ([ro.choice(SINKS_STREAM)] if cls != 'realdisk' and ro.random() < 0.5 else [])):
            fmt = ro.choice(knobs['fmts'])
            pos = ro.randrange(len(ops) + 1)
            ops[pos:pos] = [{'op': 'write', 'sink': sink, 'val': bi, 'fmt': fmt, 'via': 'func',
                             'opts': gen_json_opts(ro) if fmt == 'json' else {k: v for (k, v) in gen_yaml_opts(ro).items() if k != 'default_style'},
                             'pathkind': ro.choice(PATHKINDS), 'passty': True, 'append': False},
                            {'op': 'read', 'src': sink, 'via': 'func', 'pathkind': ro.choice(PATHKINDS)}]
    # scenario: an instance of a base class is written before the first instance of one of its subclasses (which adds
    # fields / changes formats): anything the write route remembers per class must not be inherited through the MRO
    rh = st.rng('hierarchy')
    pairs = [(n, sp['base'][1]) for (n, sp) in sorted(world.class_specs.items())
             if sp.get('base') and sp['base'][0] == 'cls' and not sp.get('tv') and not world.class_specs[sp['base'][1]].get('tv')]
    if pairs and rh.random() < 0.7:
        sub_, base_ = rh.choice(pairs)
        chain = []
        for cname in (base_, sub_):
            ast = ['cls', cname]
            custom = None
            if _cls_uses_opaque(ast, world):
                custom = rh.choice([['one', 'opaque'], ['seq', 'defer_ni', 'opaque'], ['map', 'Opaque']])
            try:
                data = tg.sample_value(ast, world, rh, valid_p=1.0, alphabet=knobs['alphabet'])
            except HarnessError:
                chain = None
                break
            values.append({'t': ast, 'data': tg.enc(data), 'custom': custom})
            fmt = rh.choice(knobs['fmts'])
            sink = rh.choice(sinks)
            chain.append({'op': 'write', 'sink': sink, 'val': len(values) - 1, 'fmt': fmt,
                          'via': 'string' if sink == 'str0' else rh.choice(['func', 'method', 'method']),
                          'opts': gen_json_opts(rh) if fmt == 'json' else gen_yaml_opts(rh), 'pathkind': rh.choice(PATHKINDS),
                          'passty': rh.random() < 0.7, 'append': False})
            if sink != 'str0':
                chain.append({'op': 'read', 'src': sink, 'via': rh.choice(['func', 'method']), 'pathkind': rh.choice(PATHKINDS)})
        if chain:
            pos = 0 if rh.random() < 0.6 else rh.randrange(len(ops) + 1)
            ops[pos:pos] = chain
    # scenario: a path is written, read, re-written with a *different value whose serialisation has the same length*
    # (all within the same clock second, as fast as the process runs) and read again: a reader that remembers what a
    # path held, validated by size and a coarse timestamp, returns the old value
    rw = st.rng('rewrite')
    if values and rw.random() < 0.3:
        cands = [vi for vi, v in enumerate(values) if not v.get('big')]
        rw.shuffle(cands)
        for vi in cands:
            d2 = _same_length_variant(values[vi]['data'], rw)
            if d2 is None:
                continue
            values.append(dict(values[vi], data=d2))
            vj = len(values) - 1
            fmt = rw.choice(knobs['fmts'])
            sink = rw.choice(SINKS_PATH)
            opts = gen_json_opts(rw) if fmt == 'json' else gen_yaml_opts(rw)
            via = rw.choice(['func', 'method'])
            chain = []
            for (k, v_) in enumerate([vi, vj, vi][:rw.choice([2, 2, 3])]):
                chain.append({'op': 'write', 'sink': sink, 'val': v_, 'fmt': fmt, 'via': via, 'opts': dict(opts),
                              'pathkind': rw.choice(PATHKINDS), 'passty': True, 'append': False})
                chain.append({'op': rw.choice(['read', 'read', 'read_all']) if fmt == 'yaml' else 'read', 'src': sink,
                              'via': rw.choice(['func', 'method']), 'pathkind': rw.choice(PATHKINDS)})
            pos = rw.randrange(len(ops) + 1)
            ops[pos:pos] = chain
            break
    # the caller writes text of its own to its stream just before / just after pane's document, without flushing (a
    # comment header, a %YAML directive, its own '---' marker, a trailing '...'): pane's document must land between them
    rc = st.rng('ctext')
    for op in ops:
        if op['op'] == 'write' and op['sink'] in SINKS_STREAM and rc.random() < 0.3:
            op['ctext'] = {'kind': rc.choice(['comment', 'directive', 'directive', 'marker', 'marker']), 'n': rc.randrange(100),
                           'after': rc.random() < 0.6}
    if cls == 'faulty':
        for op in ops:
            if rf.random() < 0.45:
                op['faults'] = gen_faults(rf, op, knobs)
        # a directory sits where the file should be (what a container runtime leaves when the source of a single-file
        # bind mount is missing): the write / read must fail, not "succeed" somewhere else
        for op in ops:
            tgt = op.get('sink') or op.get('src')
            if op['op'] in ('write', 'read', 'read_all') and tgt in SINKS_PATH and rf.random() < 0.04:
                op['obstruct'] = True
                op.pop('faults', None)
        if 'corrupt' in knobs['fault_kinds']:
            # stored bytes change under pane's feet (media error, another process truncating the file): the
            # next read may fail or return anything, but must terminate, close its handle and leave streams alone
            k = 0
            while k < len(ops):
                if ops[k]['op'] == 'write' and ops[k]['sink'] in SINKS_PATH and rf.random() < 0.4:
                    ops.insert(k + 1, {'op': 'corrupt', 'sink': ops[k]['sink'], 'how': rf.choice(['truncate', 'flip', 'badutf8', 'empty']),
                                       'at': rf.random()})
                    ops.insert(k + 2, {'op': rf.choice(['read', 'read', 'read_all']), 'src': ops[k]['sink'], 'via': rf.choice(['func', 'method']),
                                       'pathkind': rf.choice(PATHKINDS)})
                    k += 2
                k += 1
    return {'prop': PROP, 'seed': seed, 'cls': 'long' if long_run else cls, 'knobs': knobs, 'defs': defs, 'values': values, 'ops': ops}


def _same_length_variant(enc_data, rng):
    """A different value of the same shape whose JSON / YAML text has the same length: one ASCII letter or digit of
    one string or integer leaf is replaced by another one.  None if the value has no such leaf."""
    import copy
    leaves = []

    def walk(x, path):
        if isinstance(x, bool) or x is None:
            return
        if isinstance(x, int) and abs(x) >= 10:
            leaves.append((path, x))
        elif isinstance(x, str) and x and x[-1].isascii() and x[-1].isalnum():
            leaves.append((path, x))
        elif isinstance(x, list):
            for i, y in enumerate(x):
                walk(y, path + [i])
        elif isinstance(x, dict):
            (k, v), = x.items()             # tg.enc wrappers: {'t': [...]} tuple, {'d': [[key, value], ...]} dict, scalars
            if k == 't':
                walk(v, path + [k])
            elif k == 'd':
                for i, pair in enumerate(v):
                    walk(pair[1], path + [k, i, 1])      # values only: keys are often field names

    walk(enc_data, [])
    if not leaves:
        return None
    path, x = leaves[rng.randrange(len(leaves))]
    if isinstance(x, int):
        last = abs(x) % 10
        new = (last + rng.choice([1, 2, 3])) % 10
        y = (abs(x) - last + new) * (1 if x > 0 else -1)
    else:
        pool = '0123456789' if x[-1].isdigit() else ('abcdefghijklmnopqrstuvwxyz' if x[-1].islower() else 'ABCDEFGHIJKLMNOPQRSTUVWXYZ')
        c = pool[(pool.index(x[-1]) + rng.choice([1, 2, 3])) % len(pool)]
        y = x[:-1] + c
    out = copy.deepcopy(enc_data)
    cur = out
    for k in path[:-1]:
        cur = cur[k]
    if not path:
        return y
    cur[path[-1]] = y
    return out


def _cls_uses_opaque(ast, world):
    def pred(a):
        if a[0] in ('cls', 'gen'):
            spec = world.class_specs.get(a[1])
            if spec is None:
                return False
            for f in tg.effective_fields(spec, {}, world):
                if tg.contains(f['t'], lambda b: (b[0] == 's' and b[1] == 'Opaque')) or \
                        tg.contains(f['t'], lambda b: b is not a and b[0] in ('cls', 'gen') and pred(b)):
                    return True
        return False
    return tg.contains(ast, pred)


def gen_faults(rf, op, knobs):
    target = op.get('sink') or op.get('src')
    writing = op['op'] == 'write'
    fk = knobs['fault_kinds']
    out = []
    n = 1 if rf.random() < 0.85 else 2
    for _ in range(n):
        k = rf.choice([1, 1, 1, 2, 2, 3, 4, 5, 8, 13, 21])
        if target in SINKS_PATH or target == 's1':
            where = 'raw_write' if writing else 'raw_read'
            cands = [x for x in ('ENOSPC', 'EIO', 'short', 'EINTR') if x in fk] or ['EIO']
            kind = rf.choice(cands)
            if not writing and kind == 'ENOSPC':
                kind = 'EIO'
            if target in SINKS_PATH and 'open' in fk and rf.random() < 0.12:
                out.append({'where': 'open', 'kind': rf.choice(['ENOENT', 'EACCES', 'EISDIR']), 'k': 1, 'sticky': False})
                continue
            out.append({'where': where, 'kind': kind, 'k': k,
                        'sticky': kind not in LEGAL_FAULTS and 'sticky' in fk and rf.random() < 0.3})
        elif target in ('s2', 's4'):
            out.append({'where': 'stream_write' if writing else 'stream_read', 'kind': 'EIO', 'k': k, 'sticky': False})
    return out


# ---------------------------------------------------------------------------------------------
# execution

class Violation(Exception):
    def __init__(self, kind, detail):
        self.kind = kind
        self.detail = detail


class _Sink:
    def __init__(self, name):
        self.name = name
        self.state = 'absent'   # absent | intact | torn
        self.docs = []          # list of (val index, fmt, text) since last truncate
        self.obj = None
        self.raw = None
        self.nops = 0


def _direct_dump(data, fmt, opts):
    if fmt == 'json':
        return json.dumps(data, indent=opts.get('indent'), sort_keys=opts.get('sort_keys', False))
    import yaml
    try:
        from yaml import CSafeDumper as Dumper
    except ImportError:  # pragma: no cover
        from yaml import SafeDumper as Dumper
    kw = dict(indent=None, width=None, allow_unicode=True, explicit_start=True, explicit_end=False,
              default_style=None, default_flow_style=None, sort_keys=False)
    kw.update(opts)
    buf = io.StringIO()
    yaml.dump(data, buf, Dumper=Dumper, **kw)
    return buf.getvalue()


def _direct_load_all(text, fmt):
    if fmt == 'json':
        return [json.loads(text)]
    import yaml
    try:
        from yaml import CSafeLoader as Loader
    except ImportError:  # pragma: no cover
        from yaml import SafeLoader as Loader
    return list(yaml.load_all(io.StringIO(text), Loader))


def _eq(a, b):
    try:
        return type(a) is type(b) and bool(a == b)
    except Exception:
        return False


class Exec:
    def __init__(self, plan):
        import pane
        import pane.io
        self.pane = pane
        self.plan = plan
        self.knobs = plan['knobs']
        self.cls = plan['cls']
        self.trace = Trace()
        self.counters = {}
        self.states = set()
        self.world = tg.World()
        self.fs = SimFS(self.knobs)
        self.real = self.cls == 'realdisk'
        self.tmpdir = None
        self.sinks = {}
        self.values = []
        self.violation = None
        self.nontrivial = False
        self.op_raw_writes = []
        self.last_fault = None

    def count(self, k, n=1):
        self.counters[k] = self.counters.get(k, 0) + n

    # -- set up
    def setup(self):
        pane = self.pane
        for (kind, spec) in self.plan['defs']:
            try:
                if kind == 'enum':
                    tg.define_enum(spec, self.world)
                else:
                    tg.define_class(spec, self.world)
            except Exception:
                self.count('def_failed')
        for v in self.plan['values']:
            ent = {'ok': False}
            try:
                T = tg.build(v['t'], self.world)
                H = tg.build_handlers(v['custom'])
                x = pane.from_data(tg.dec(v['data']), T, custom=H)
                ent = {'ok': True, 'T': T, 'H': H, 'x': x, 'hspec': v['custom'], 'tkey': canon([v['t'], v['custom']])}
            except Exception:
                self.count('value_not_constructible')
            self.values.append(ent)
        base = os.environ.get('VERIF_SCRATCH') or ('/dev/shm' if os.path.isdir('/dev/shm') else tempfile.gettempdir())
        self.tmpdir = tempfile.mkdtemp(prefix='pane_c19_', dir=base)
        os.mkdir(os.path.join(self.tmpdir, '~'))
        os.mkdir(os.path.join(self.tmpdir, 'sub'))
        os.mkdir(os.path.join(self.tmpdir, 'home'))
        os.makedirs(os.path.join(self.tmpdir, 'elsewhere', 'deep'))
        os.symlink(os.path.join('elsewhere', 'deep'), os.path.join(self.tmpdir, 'lnk'))
        if not self.real:
            sys.modules['pane.io'].open = self.fs.open  # the seam (module global shadows the builtin)
            self._saved_cwd = os.getcwd()
            self._saved_home = os.environ.get('HOME')
            os.chdir(self.tmpdir)
            os.environ['HOME'] = os.path.join(self.tmpdir, 'home')
        for n in SINKS_PATH + ['str0']:
            self.sinks[n] = _Sink(n)
        s0 = _Sink('s0')
        s0.obj = io.StringIO()
        s1 = _Sink('s1')
        s1.obj, s1.raw = make_caller_wrapper(self.fs, self.knobs['wrapper_encoding'], self.knobs['wrapper_newline'])
        s2 = _Sink('s2')
        s2.obj = FaultyStringIO(self.fs)
        s3 = _Sink('s3')
        s3.obj = ChunkyText(self.fs, self.knobs.get('text_chunk', 7))
        s4 = _Sink('s4')
        s4.obj = PipeText(self.fs, self.knobs.get('text_chunk', 7))
        for s in (s0, s1, s2, s3, s4):
            s.state = 'intact'
            self.sinks[s.name] = s

    def teardown(self):
        mod = sys.modules.get('pane.io')
        if mod is not None and 'open' in mod.__dict__ and not self.real:
            del mod.__dict__['open']
        self.fs.disarm()
        if getattr(self, '_saved_cwd', None) is not None:
            try:
                os.chdir(self._saved_cwd)
            except OSError:
                pass
            if self._saved_home is None:
                os.environ.pop('HOME', None)
            else:
                os.environ['HOME'] = self._saved_home
        for s in self.sinks.values():
            if s.obj is not None:
                try:
                    s.obj.close()
                except Exception:
                    pass
        if self.tmpdir:
            shutil.rmtree(self.tmpdir, ignore_errors=True)

    def path_arg(self, name, kind):
        """
        p0 lives at <scratch>/p0.txt, p1 at <scratch>/~/p1.txt (a directory literally named '~': a path pane must not
        'expand').  The same file is named in several legitimate ways: absolute str / Path, relative to the current
        directory (which is the scratch directory for the duration of the run), or through a 'sub/..' detour.
        """
        rel = name + '.txt' if name == 'p0' else os.path.join('~', name + '.txt')
        if name == 'p2':
            # <scratch>/elsewhere/p2.txt.  'lnk' is a symlink to <scratch>/elsewhere/deep, so '<scratch>/lnk/../p2.txt'
            # denotes the same file for the kernel - and <scratch>/p2.txt for anybody who collapses '..' lexically
            rel = os.path.join('elsewhere', 'p2.txt')
            if kind == 'dotdot':
                return os.path.join(self.tmpdir, 'lnk', '..', 'p2.txt')
        if self.real and kind in ('rel', 'relPath'):
            kind = 'str'            # the real-disk class does not change the process's current directory
        if kind == 'rel':
            return rel
        if kind == 'relPath':
            return pathlib.Path(rel)
        if kind == 'dotdot':
            return os.path.join(self.tmpdir, 'sub', '..', rel)
        p = os.path.join(self.tmpdir, rel)
        return pathlib.Path(p) if kind == 'Path' else p

    def _scratch_fds(self):
        """Open descriptors of this process that refer to files in the run's scratch directory."""
        out = set()
        try:
            for fd in os.listdir('/proc/self/fd'):
                try:
                    tgt = os.readlink('/proc/self/fd/' + fd)
                except OSError:
                    continue
                if tgt.startswith(self.tmpdir + os.sep):
                    out.add(tgt)
        except OSError:
            pass
        return out

    def unpath(self, text):
        """Details and traces never contain the scratch directory (it differs between processes)."""
        return text.replace(self.tmpdir, '<scratch>') if self.tmpdir else text

    # -- representability precondition (decided with json/yaml directly, never with pane.io)
    @staticmethod
    def caller_text(ct, fmt, opts, append, prev_explicit_end):
        """Text the caller itself writes around pane's document (and the options it then asks pane for).  It never
        changes which documents the stream holds - provided everything lands in the order it was written."""
        opts = dict(opts)
        n = ct.get('n', 0)
        if fmt == 'json':
            return (' \n' if n % 2 else '\n\t'), ('\n' if ct.get('after') else ''), opts
        kind = ct['kind']
        after = ''
        if kind == 'comment':
            before = f"# note {n}\n"
            if ct.get('after'):
                after = f"# end of {n}\n"
        elif kind == 'directive':
            before = ('' if (not append or prev_explicit_end) else '...\n') + '%YAML 1.1\n'
            opts['explicit_start'] = True
            if ct.get('after') and not opts.get('explicit_end', False):
                after = '...\n'
        else:
            before = '---\n' if n % 3 else '--- # doc\n'
            opts['explicit_start'] = False      # the caller owns the document start marker
            if ct.get('after') and not opts.get('explicit_end', False):
                after = '...\n'
        return before, after, opts

    def representable(self, ent, fmt, opts, ser_ty, prior_texts, before='', after=''):
        """`ser_ty` is the type the chosen route serialises with: the declared type (module function with ty=),
        None (module function, type inferred from the value) or the value's class (dataclass methods)."""
        pane = self.pane
        try:
            data = pane.into_data(ent['x'], ser_ty, custom=ent['H'])
            text = _direct_dump(data, fmt, opts)
            docs = _direct_load_all(''.join(prior_texts) + before + text + after, fmt)
            if len(docs) != len(prior_texts) + 1:
                return None
            back = pane.from_data(docs[-1], ent['T'], custom=ent['H'])
            if not _eq(back, ent['x']):
                return None
            text.encode('utf-8')
            return text
        except Exception:
            return None

    # -- operations
    def run(self):
        self.trace.add('knobs', self.knobs, self.cls)
        nops = len(self.plan['ops'])
        for i, op in enumerate(self.plan['ops'] + [{'op': 'end'}]):
            self.fs.op_index = i
            w0 = self.fs.counters['raw_writes']
            try:
                # (O) again, a little later: a caller's stream that was open when the call returned must not be closed
                # afterwards either (by a finaliser of something pane left behind, say)
                gc.collect()
                for s_ in self.sinks.values():
                    if s_.obj is not None and s_.obj.closed and not getattr(s_, 'reported_closed', False):
                        s_.reported_closed = True
                        raise Violation('caller_stream_closed_later',
                                        f"caller's stream {s_.name} was open when the previous call returned and is closed now")
                if i == nops:
                    break
                if op['op'] == 'write':
                    self.do_write(i, op)
                elif op['op'] in ('read', 'read_all'):
                    self.do_read(i, op)
                elif op['op'] == 'corrupt':
                    self.do_corrupt(i, op)
                else:
                    raise HarnessError(f"unknown op {op}")
            except Violation as v:
                detail = self.unpath(v.detail)
                opname = 'after_call' if v.kind == 'caller_stream_closed_later' else op['op']
                self.violation = {'op_index': min(i, nops - 1), 'op': opname, 'kind': v.kind, 'detail': detail,
                                  'signature': f"{opname}:{v.kind}"}
                self.trace.add('violation', i, v.kind, detail)
                self.op_raw_writes.append(self.fs.counters['raw_writes'] - w0)
                break
            finally:
                self.fs.disarm()
            self.op_raw_writes.append(self.fs.counters['raw_writes'] - w0)
            self.states.add(h64(canon([[s.name, s.state, len(s.docs)] for s in self.sinks.values()]),
                                len(self.fs.open_handles()), self.last_fault))

    def arm(self, op):
        faults = [Fault(f['where'], f['kind'], f['k'], f.get('sticky', False)) for f in op.get('faults', [])]
        self.fs.arm(faults)
        return faults

    def fired_summary(self):
        out = []
        for (f, tgt) in self.fs.fired:
            out.append(f.kind + ('*' if f.sticky else '') + '@' + f.where)
        return out

    def check_ownership(self, i, op, sink, opened_before, fds_before, phase):
        """(O) evaluated at the instant control returns to the caller (normally or by exception)."""
        self.count('checked_O_' + phase)
        new = self.fs.opens[opened_before:]
        for rec in new:
            if not rec.closed:
                raise Violation('handle_leak', f"handle on {os.path.basename(rec.path)} (mode {rec.mode!r}) still open when "
                                               f"{op['op']} returned control ({phase})")
        leaked = self._scratch_fds() - fds_before
        if leaked:
            raise Violation('handle_leak', f"file descriptor(s) on {sorted(os.path.basename(x) for x in leaked)} still open "
                                           f"when {op['op']} returned control ({phase})")
        for rec in new:
            if rec.text and norm_encoding(rec.encoding) not in ('utf-8', 'utf-8-sig'):
                raise Violation('not_utf8', f"path {os.path.basename(rec.path)} opened with encoding={rec.encoding!r}")
        if sink.obj is not None:
            if sink.obj.closed:
                raise Violation('caller_stream_closed', f"caller's stream {sink.name} is closed after {op['op']} ({phase})")

    def _classify_exc(self, e, faults):
        injected = [x for f in faults for x in f.excs]
        seen = set()
        cur = e
        while cur is not None and id(cur) not in seen:
            seen.add(id(cur))
            if any(cur is x for x in injected):
                return 'injected'
            cur = cur.__cause__ or cur.__context__
        return 'other'

    def do_corrupt(self, i, op):
        sink = self.sinks[op['sink']]
        path = self.path_arg(sink.name, 'str')
        if not os.path.exists(path):
            self.trace.add('skip', i, 'corrupt-absent')
            return
        with open(path, 'rb') as f:
            raw = bytearray(f.read())
        pos = int(op['at'] * len(raw)) if raw else 0
        how = op['how']
        if how == 'truncate':
            raw = raw[:pos]
        elif how == 'flip' and raw:
            raw[min(pos, len(raw) - 1)] ^= 0x55
        elif how == 'badutf8':
            raw[pos:pos] = b'\xff\xfe\xc3'
        else:
            raw = bytearray()
        with open(path, 'wb') as f:
            f.write(raw)
        sink.state = 'torn'
        sink.docs = []
        self.count('stored_bytes_corrupted:' + how)
        self.trace.add('corrupt', i, sink.name, how)

    def do_write(self, i, op):
        pane = self.pane
        sink = self.sinks[op['sink']]
        ent = self.values[op['val']]
        fmt, opts, via = op['fmt'], dict(op['opts']), op['via']
        if not ent['ok']:
            self.trace.add('skip', i, 'value')
            return
        is_pane = hasattr(type(ent['x']), '__pane_info__')
        if via in ('method', 'string') and not is_pane:
            via = 'func'
            if sink.name == 'str0':
                self.trace.add('skip', i, 'string-needs-dataclass')
                return
        passty = op.get('passty', True) or not is_pane
        if via != 'func':
            passty = True
        is_stream = sink.obj is not None
        append = bool(op.get('append')) and is_stream and sink.state == 'intact' and sink.docs \
            and all(d[1] == 'yaml' for d in sink.docs) and len(sink.docs) < 4
        prior = [d[2] for d in sink.docs] if append else []
        if append and not sink.docs[-1][3].get('explicit_end', False):
            opts['explicit_start'] = True
        ser_ty = (ent['T'] if passty else None) if via == 'func' else type(ent['x'])
        before = after = ''
        text = None
        ctext_ok = sink.raw is None or norm_encoding(self.knobs['wrapper_encoding']) != 'utf-16'
        if op.get('ctext') and is_stream and not ctext_ok:
            # the caller's own (ASCII) text would be stored as UTF-16 next to whatever encoding pane writes in: which
            # encoding a caller's stream ends up with is not part of the property
            self.count('caller_text_skipped_wide_encoding')
        if op.get('ctext') and is_stream and ctext_ok:
            before, after, opts_c = self.caller_text(op['ctext'], fmt, opts, append,
                                                     bool(append and sink.docs[-1][3].get('explicit_end', False)))
            text = self.representable(ent, fmt, opts_c, ser_ty, prior, before, after)
            if text is None:
                before = after = ''
                self.count('caller_text_not_representable')
            else:
                opts = opts_c
                self.count('caller_text_around_document')
        if text is None:
            text = self.representable(ent, fmt, opts, ser_ty, prior)
        if text is None:
            self.count('skipped_not_representable')
            self.trace.add('skip', i, 'not-representable')
            return
        # a caller that created its TextIOWrapper write-through may interleave writes to the binary layer underneath
        # (nothing is ever pending in the text layer of such a stream - unless somebody switches that off)
        via_buffer = bool(before or after) and sink.raw is not None and bool(self.knobs.get('write_through')) \
            and op['ctext'].get('n', 0) % 3 != 0
        if via_buffer:
            self.count('caller_text_through_binary_layer')
        # caller prepares its stream
        if is_stream:
            try:
                if not append:
                    if isinstance(sink.obj, PipeText):
                        sink.obj.reset()            # a new pipe
                    else:
                        sink.obj.seek(0)
                        sink.obj.truncate()
                    sink.docs = []
                    if sink.state == 'torn':
                        self.count('torn_then_rewritten')
                    sink.state = 'intact'
                elif not isinstance(sink.obj, PipeText):
                    sink.obj.seek(0, 2)
                if before and via_buffer:
                    sink.obj.buffer.write(before.encode('ascii'))   # legal: a write-through stream holds no pending text
                elif before:
                    sink.obj.write(before)       # not flushed: it may still sit in the caller's text layer when pane is called
            except Exception as e:
                raise HarnessError(f"caller stream prep failed: {e!r}")
        obstructed = bool(op.get('obstruct')) and not is_stream and sink.name != 'str0'
        if obstructed:
            self._obstruct(sink)
        target = sink.obj if is_stream else (None if sink.name == 'str0' else self.path_arg(sink.name, op['pathkind']))
        kw = dict(opts)
        if ent['H'] is not None:
            kw['custom'] = ent['H']
        faults = self.arm(op)
        opened_before = len(self.fs.opens)
        fds_before = self._scratch_fds()
        sink.nops += 1
        if sink.nops >= 2:
            self.nontrivial = True
        raised = None
        ret = None
        try:
            if via == 'func':
                fn = pane.io.write_json if fmt == 'json' else pane.io.write_yaml
                ret = fn(ent['x'], target, ty=ent['T'] if passty else None, **kw)
            elif via == 'method':
                fn = ent['x'].write_json if fmt == 'json' else ent['x'].write_yaml
                ret = fn(target, **kw)
            else:
                fn = ent['x'].write_json if fmt == 'json' else ent['x'].write_yaml
                ret = fn(**kw)
        except BaseException as e:  # noqa
            if isinstance(e, (KeyboardInterrupt, SystemExit, HarnessError)):
                raise
            raised = e
            # (O) while the traceback still pins pane's frames
            self.fs.disarm()
            self.check_ownership(i, op, sink, opened_before, fds_before, 'under_exception')
        else:
            self.fs.disarm()
            self.check_ownership(i, op, sink, opened_before, fds_before, 'on_return')
        fired = self.fired_summary()
        err_fired = [f for (f, _) in self.fs.fired if f.kind not in LEGAL_FAULTS]
        for f in fired:
            self.count('fault_fired:' + f)
            self.last_fault = f
        if self.fs.fired:
            self.nontrivial = True
        self.trace.add('write', i, sink.name, fmt, via, canon(opts), 'raised:' + type(raised).__name__ if raised else 'ok',
                       fired, self.fs.counters['raw_writes'], before, after)
        if obstructed:
            still_dir = os.path.isdir(self.path_arg(sink.name, 'str'))
            self._unobstruct(sink)
            sink.state, sink.docs = 'absent', []
            if raised is None and still_dir:
                raise Violation('ack_write_unreadable', f"write_{fmt} to {sink.name} returned normally although a directory sits "
                                                        f"at that path (nothing can have been written there)")
            if raised is not None:
                self.count('write_refused_directory_in_the_way')
                return
            # the implementation replaced the directory by the file: unusual, but then the content must be right
        if raised is not None:
            if sink.name != 'str0':
                sink.state = 'torn' if (is_stream or self._path_exists(sink)) else 'absent'
                sink.docs = []
            if err_fired:
                cls = self._classify_exc(raised, faults)
                self.count('write_failed_' + cls)
                if any(f.where == 'raw_write' for f in err_fired):
                    self.count('fault_landed_in_document')
                return
            if isinstance(raised, UnicodeEncodeError) and sink.raw is not None \
                    and norm_encoding(self.knobs['wrapper_encoding']) != 'utf-8':
                # the caller chose an encoding that cannot hold the text; pane re-configures such streams to
                # UTF-8 today, but the property does not promise that
                self.count('caller_encoding_cannot_hold_text')
                return
            raise Violation('unexpected_exception',
                            f"write_{fmt} of a representable value raised {type(raised).__name__}: {mask(str(raised))[:200]}")
        # acknowledged: the sink must now hold the value
        if via == 'string':
            if not isinstance(ret, str):
                raise Violation('string_not_returned', f"write_{fmt}() returned {type(ret).__name__}")
            try:
                self._check_text(ret, [(op['val'], fmt)], 'returned string')
            except Violation as v:
                if not self._pane_reads_back(sink, [(op['val'], fmt)], text=ret):
                    raise
                self.count('independent_parse_disagreed_pane_round_trip_ok')
            sink.state = 'intact'
            sink.docs = [(op['val'], fmt, ret, opts)]
            return
        if not is_stream:
            sink.docs = []   # pane opens paths with 'w': the previous content is replaced
        if after:
            try:
                if via_buffer:
                    sink.obj.buffer.write(after.encode('ascii'))
                else:
                    sink.obj.write(after)
            except Exception as e:
                raise Violation('caller_stream_unusable', f"caller's stream {sink.name} cannot be written to after an "
                                                          f"acknowledged write: {type(e).__name__}: {mask(str(e))[:120]}")
        sink.docs.append((op['val'], fmt, before + text + after, dict(opts, explicit_end=True) if after == '...\n' else opts))
        sink.state = 'intact'
        content = ''
        try:
            content = self._sink_text(sink, op)
            self._check_text(content, [(d[0], d[1]) for d in sink.docs], f"sink {sink.name}")
        except Violation as v:
            # the independent reading (bytes decoded as UTF-8, parsed with json/yaml directly) is stricter than the
            # property, which only promises that *pane's* matching reader gives the value back: ask it, fault-free
            if not self._pane_reads_back(sink, [(d[0], d[1]) for d in sink.docs]):
                raise
            self.count('independent_parse_disagreed_pane_round_trip_ok')
        if err_fired:
            self.count('error_fired_but_write_intact')
        if any(f.kind in LEGAL_FAULTS for (f, _) in self.fs.fired):
            self.count('short_write_retried')
        if len(sink.docs) > 1:
            self.count('multi_doc_appended')
        if any(ord(c) > 127 for c in content) and not is_stream:
            self.count('non_ascii_through_path')

    def _pane_reads_back(self, sink, docs, text=None):
        """Does pane's own matching reader, with no fault armed, return the acknowledged value(s) from the sink?"""
        pane = self.pane
        self.fs.disarm()
        fmt = docs[0][1]
        ents = [self.values[vi] for (vi, _) in docs]
        if len({e['tkey'] for e in ents}) != 1:
            return False
        ent = ents[0]
        kw = {'custom': ent['H']} if ent['H'] is not None else {}
        try:
            if text is not None:
                src = io.StringIO(text)
            elif isinstance(sink.obj, PipeText):
                src = sink.obj.reader()
            elif sink.obj is not None:
                src = sink.obj
                if not isinstance(src, (io.StringIO, ChunkyText)):
                    src.flush()
                src.seek(0)
            else:
                src = self.path_arg(sink.name, 'str')
            try:
                if len(docs) > 1 or (fmt == 'yaml' and sink.obj is not None and len(docs) >= 1 and text is None):
                    got = pane.io.from_yaml_all(src, ent['T'], **kw) if fmt == 'yaml' else None
                    ok = isinstance(got, list) and len(got) == len(docs) and all(_eq(g, e['x']) for (g, e) in zip(got, ents))
                else:
                    got = (pane.io.from_json if fmt == 'json' else pane.io.from_yaml)(src, ent['T'], **kw)
                    ok = _eq(got, ent['x'])
            finally:
                if sink.obj is not None and text is None and not isinstance(sink.obj, PipeText):
                    sink.obj.seek(0, 2)
            return bool(ok)
        except Exception:
            return False

    def _obstruct(self, sink):
        p = self.path_arg(sink.name, 'str')
        try:
            if os.path.isdir(p) and not os.path.islink(p):
                shutil.rmtree(p)
            elif os.path.lexists(p):
                os.remove(p)
            os.mkdir(p)
        except OSError as e:
            raise HarnessError(f"cannot put a directory at {sink.name}: {e!r}")
        sink.state = 'absent'
        sink.docs = []
        self.count('fault_fired:directory_in_the_way')
        self.nontrivial = True

    def _unobstruct(self, sink):
        p = self.path_arg(sink.name, 'str')
        if os.path.isdir(p) and not os.path.islink(p):
            shutil.rmtree(p, ignore_errors=True)

    def _path_exists(self, sink):
        return os.path.exists(self.path_arg(sink.name, 'str'))

    def _sink_text(self, sink, op):
        """What the sink holds, as the caller would find it: a caller stream is read back through the
        caller's own stream object (its encoding is the caller's business); a path is decoded as UTF-8."""
        if sink.obj is not None:
            if isinstance(sink.obj, (io.StringIO, ChunkyText, PipeText)):
                return sink.obj.getvalue()
            try:
                sink.obj.flush()
                sink.obj.seek(0)
                text = sink.obj.read()
                sink.obj.seek(0, 2)
                return text
            except Exception as e:
                raise Violation('caller_stream_unusable', f"caller's stream {sink.name} cannot be flushed/read back after an "
                                                          f"acknowledged write: {type(e).__name__}: {mask(str(e))[:120]}")
        try:
            with open(self.path_arg(sink.name, 'str'), 'rb') as f:
                raw = f.read()
        except FileNotFoundError:
            raise Violation('ack_write_unreadable', f"path {sink.name} does not exist after an acknowledged write")
        except OSError as e:
            raise Violation('ack_write_unreadable', f"path {sink.name} is not a readable file after an acknowledged write: {type(e).__name__}")
        try:
            return raw.decode('utf-8')
        except UnicodeDecodeError as e:
            raise Violation('ack_write_unreadable', f"path {sink.name} does not hold UTF-8 after an acknowledged write: {e}")

    def _check_text(self, content, docs, what):
        pane = self.pane
        fmt = docs[0][1]
        try:
            parsed = _direct_load_all(content, fmt)
        except Exception as e:
            raise Violation('ack_write_unreadable', f"{what} does not parse as {fmt} after an acknowledged write: "
                                                    f"{type(e).__name__}: {mask(str(e))[:160]}")
        if len(parsed) != len(docs):
            raise Violation('ack_write_unreadable', f"{what} holds {len(parsed)} documents, {len(docs)} were acknowledged")
        for (p, (vi, _)) in zip(parsed, docs):
            ent = self.values[vi]
            try:
                back = pane.from_data(p, ent['T'], custom=ent['H'])
            except Exception as e:
                raise Violation('ack_write_unreadable', f"{what}: content does not convert back: {type(e).__name__}: {mask(str(e))[:160]}")
            if not _eq(back, ent['x']):
                raise Violation('ack_write_unreadable', f"{what}: content converts back to a different value: "
                                                        f"{mask(repr(back))[:120]} != {mask(repr(ent['x']))[:120]}")

    def do_read(self, i, op):
        pane = self.pane
        sink = self.sinks[op['src']]
        is_stream = sink.obj is not None
        read_all = op['op'] == 'read_all'
        docs = list(sink.docs)
        state = sink.state
        via = op['via']
        # which type to ask for: that of the documents the model says are there; else any value's
        if docs:
            ent = self.values[docs[0][0]]
            fmt = docs[0][1]
        else:
            cands = [v for v in self.values if v['ok']]
            if not cands:
                self.trace.add('skip', i, 'no-values')
                return
            ent = cands[0]
            fmt = self.knobs['fmts'][0]
        if read_all and fmt != 'yaml':
            self.trace.add('skip', i, 'read_all-json')
            return
        is_pane = isinstance(ent['T'], type) and hasattr(ent['T'], '__pane_info__')
        if via == 'method' and not is_pane:
            via = 'func'
        same_type = all(self.values[d[0]]['tkey'] == ent['tkey'] for d in docs)
        strict = state == 'intact' and docs and same_type and (read_all or len(docs) == 1)
        if sink.name == 'str0':
            if not docs or read_all or not is_pane:
                self.trace.add('skip', i, 'str0')
                return
            source = docs[0][2]
        elif isinstance(sink.obj, PipeText):
            source = sink.obj.reader()          # the read end of the pipe: readable once, front to back
        elif is_stream:
            try:
                if not isinstance(sink.obj, (io.StringIO, ChunkyText)):
                    sink.obj.flush()
                sink.obj.seek(0)
            except Exception as e:
                raise HarnessError(f"caller rewind failed: {e!r}")
            source = sink.obj
        else:
            source = self.path_arg(sink.name, op['pathkind'])
        obstructed = bool(op.get('obstruct')) and not is_stream and sink.name != 'str0'
        if obstructed:
            self._obstruct(sink)
            state, docs, strict = 'absent', [], False
        kw = {}
        if ent['H'] is not None:
            kw['custom'] = ent['H']
        faults = self.arm(op)
        opened_before = len(self.fs.opens)
        fds_before = self._scratch_fds()
        sink.nops += 1
        if sink.nops >= 2:
            self.nontrivial = True
        raised = None
        ret = None
        T = ent['T']
        try:
            if sink.name == 'str0':
                ret = (T.from_jsons if fmt == 'json' else T.from_yamls)(source, **kw)
            elif via == 'func':
                fn = {('json', False): pane.io.from_json, ('yaml', False): pane.io.from_yaml,
                      ('yaml', True): pane.io.from_yaml_all}[(fmt, read_all)]
                ret = fn(source, T, **kw)
            else:
                fn = {('json', False): T.from_json, ('yaml', False): T.from_yaml, ('yaml', True): T.from_yaml_all}[(fmt, read_all)]
                ret = fn(source, **kw)
        except BaseException as e:  # noqa
            if isinstance(e, (KeyboardInterrupt, SystemExit, HarnessError)):
                raise
            raised = e
            self.fs.disarm()
            self.check_ownership(i, op, sink, opened_before, fds_before, 'under_exception')
        else:
            self.fs.disarm()
            self.check_ownership(i, op, sink, opened_before, fds_before, 'on_return')
        if obstructed:
            self._unobstruct(sink)
        if isinstance(sink.obj, PipeText) and getattr(source, 'closed', False):
            raise Violation('caller_stream_closed', f"the read end of the caller's pipe {sink.name} was closed by {op['op']}")
        fired = self.fired_summary()
        err_fired = [f for (f, _) in self.fs.fired if f.kind not in LEGAL_FAULTS]
        for f in fired:
            self.count('fault_fired:' + f)
            self.last_fault = f
        if self.fs.fired:
            self.nontrivial = True
        # the outcome of reading a torn sink is not judged and depends on the exact bytes left behind (which, for
        # set-valued data, depend on the hash seed): it is kept out of the digest
        self.trace.add(op['op'], i, sink.name, fmt, via, state, len(docs),
                       'unjudged' if state == 'torn' else ('raised:' + type(raised).__name__ if raised else 'ok'), fired)
        if state == 'torn':
            self.count('read_of_torn')
        if state == 'absent' and sink.obj is None and sink.name != 'str0' and not err_fired:
            # the path does not exist: the reader must say so, not invent a value
            if raised is None:
                raise Violation('read_absent_returned', f"{op['op']} of a path that does not exist returned {mask(repr(ret))[:80]}")
            if not isinstance(raised, FileNotFoundError):
                self.count('read_absent_other_exception')
            self.count('read_absent_raised')
            return
        if raised is not None:
            if err_fired:
                self.count('read_failed_' + self._classify_exc(raised, faults))
                return
            if not strict:
                self.count('read_nonstrict_raised')
                self.count('read_nonstrict_raised:' + state + ':' + str(min(len(docs), 2)) + ':' + type(raised).__name__)
                return
            raise Violation('unexpected_exception',
                            f"{op['op']} of an intact {fmt} source raised {type(raised).__name__}: {mask(str(raised))[:200]}")
        if not strict:
            self.count('read_nonstrict_returned')
            return
        self.count('read_strict_checked')
        if read_all:
            self.count('multi_doc_n', 0)
            self.count(f'multi_doc_n{min(len(docs), 4)}')
            if not isinstance(ret, list) or len(ret) != len(docs):
                raise Violation('read_all_wrong_count',
                                f"from_yaml_all returned {len(ret) if isinstance(ret, list) else type(ret).__name__} "
                                f"values for {len(docs)} documents")
            for (r, d) in zip(ret, docs):
                if not _eq(r, self.values[d[0]]['x']):
                    raise Violation('read_wrong_value', f"document differs: {mask(repr(r))[:120]} != {mask(repr(self.values[d[0]]['x']))[:120]}")
        else:
            if not _eq(ret, ent['x']):
                raise Violation('read_wrong_value', f"read back {mask(repr(ret))[:120]} != written {mask(repr(ent['x']))[:120]}")
        if any(f.kind in LEGAL_FAULTS for (f, _) in self.fs.fired):
            self.count('short_read_ok')
        if is_stream and not isinstance(sink.obj, PipeText):
            # the caller's stream must still be usable by the caller
            try:
                sink.obj.seek(0, 2)
            except Exception as e:
                raise Violation('caller_stream_unusable', f"caller stream unusable after read: {e!r}")


def execute(plan, want_trace=False) -> dict:
    ex = Exec(plan)
    try:
        ex.setup()
        ex.run()
    finally:
        ex.teardown()
    res = {
        'digest': ex.trace.digest(),
        'violation': ex.violation,
        'counters': ex.counters,
        'states': sorted(ex.states),
        'nontrivial': ex.nontrivial,
        'op_raw_writes': ex.op_raw_writes,
        'nops': len(ex.op_raw_writes),
    }
    res['counters']['raw_writes'] = ex.fs.counters['raw_writes']
    res['counters']['raw_reads'] = ex.fs.counters['raw_reads']
    res['counters']['opens'] = ex.fs.counters['opens']
    res['counters']['text_short_reads'] = ex.fs.counters.get('text_short_reads', 0)
    if want_trace:
        res['trace'] = ex.trace.events
    return res


def reset_world():
    """Full reset between runs executed in one process."""
    import gc
    import typing
    import pane.convert
    import pane.classes
    mc = sys.modules['pane.convert'].make_converter
    cache = getattr(mc, 'cache', None)
    if isinstance(cache, dict):
        cache.clear()
    try:
        sys.modules['pane.classes']._make_subclass.cache_clear()
    except AttributeError:
        pass
    for f in typing._cleanups:
        f()
    gc.collect()


def run_one(cfg, item):
    from .kernel import run_isolated
    return run_isolated(_run_one, cfg, item)


def _run_one(cfg, item):
    """Batch entry: item = (cls, index) ; cfg = {'verif_seed':..}"""
    from .kernel import run_seed
    (cls, index) = item
    seed = run_seed(cfg['verif_seed'], PROP, cls, index)
    plan = gen_plan(seed, cls)
    res = execute(plan, want_trace=cfg.get('want_trace', False))
    res['cls'] = cls
    res['index'] = index
    res['seed'] = seed
    if res['violation'] is not None or cfg.get('keep_plan'):
        res['plan'] = plan
    if index < cfg.get('sample', 0) and cls != 'realdisk' and not any(v.get('big') for v in plan['values']):
        r2 = execute_isolated(plan, want_trace=True)
        res['sample'] = {'class': cls, 'index': index, 'seed': seed, 'plan': plan, 'trace': r2['trace']}
    return res


def sweep_one(cfg, item):
    from .kernel import run_isolated
    return run_isolated(_sweep_one, cfg, item)


def _sweep_one(cfg, item):
    """Fault-position sweep: plan index + operation index + fault kind + k."""
    from .kernel import run_seed
    (cls, index, op_i, kind, k, where) = item
    seed = run_seed(cfg['verif_seed'], PROP, cls, index)
    plan = gen_plan(seed, cls)
    plan['cls'] = 'faulty'
    plan['ops'][op_i]['faults'] = [{'where': where, 'kind': kind, 'k': k, 'sticky': False}]
    res = execute(plan)
    res['cls'] = 'sweep'
    res['index'] = index
    res['seed'] = seed
    res['item'] = list(item)
    if res['violation'] is not None:
        res['plan'] = plan
    return res


def sweep_probe(cfg, item):
    from .kernel import run_isolated
    return run_isolated(_sweep_probe, cfg, item)


def _sweep_probe(cfg, item):
    """Measure raw writes / reads per operation of a fault-free plan (to enumerate fault positions)."""
    from .kernel import run_seed
    (cls, index) = item
    seed = run_seed(cfg['verif_seed'], PROP, cls, index)
    plan = gen_plan(seed, cls)
    if any(v.get('big') for v in plan['values']):
        # the enumeration re-runs the whole plan once per fault position: not with 100 KiB documents in it
        return {'digest': '', 'violation': None, 'counters': {}, 'cls': cls, 'index': index, 'targets': [], 'nops': 0}
    res = execute(plan)
    targets = []
    for i, op in enumerate(plan['ops'][:res['nops']]):
        tgt = op.get('sink') or op.get('src')
        if tgt in SINKS_PATH or tgt == 's1':
            targets.append((i, op['op'], res['op_raw_writes'][i]))
    return {'digest': res['digest'], 'violation': None, 'counters': {}, 'cls': cls, 'index': index,
            'targets': targets, 'nops': 0}


def extra_phase(verif_seed, tier, agg):
    """Enumerate every raw-write fault position of a sample of write operations."""
    from .kernel import Batch, merge_counters
    n_plans = 150 if tier == 'quick' else 1500
    cfg = {'verif_seed': verif_seed}
    b = Batch()
    items = []
    n_ops = 0
    for r in b.map('sim.c19', 'sweep_probe', cfg, [('faultfree', i) for i in range(n_plans)], chunk=25):
        if 'harness_error' in r:
            raise HarnessError(r['harness_error'])
        for (op_i, opk, nw) in r['targets']:
            if opk == 'write' and nw:
                n_ops += 1
                for k in range(1, min(nw, 40) + 1):
                    items.append(('faultfree', r['index'], op_i, ('EIO', 'ENOSPC', 'short', 'EINTR')[k % 4], k, 'raw_write'))
            elif opk != 'write':
                for k in (1, 2, 3):
                    items.append(('faultfree', r['index'], op_i, ('EIO', 'short', 'EINTR')[k % 3], k, 'raw_read'))
    items.sort()
    viol = []
    counters = {}
    digests = set()
    n = 0
    for r in b.map('sim.c19', 'sweep_one', cfg, items, chunk=50):
        if 'harness_error' in r:
            raise HarnessError(r['harness_error'])
        n += 1
        merge_counters(counters, r['counters'])
        if r.get('nontrivial'):
            digests.add(r['digest'][:20])
        if r['violation'] is not None:
            viol.append(r)
    agg['evaluations'] += n
    agg['nontrivial_digests'].update(digests)
    agg['digests'].update(digests)
    merge_counters(agg['counters'], counters)
    return {'violations': viol, 'evidence': {'fault_position_sweep': {
        'write_operations_swept': n_ops, 'fault_positions_executed': n,
        'rule': 'for each sampled write to a path or caller TextIOWrapper, one run per raw-write index k=1..N (N measured fault-free, capped at 40) with EIO/ENOSPC/short at exactly that write; reads: k=1..3'}}}


ASSUMPTIONS = [
    "real json, PyYAML (libyaml C loader/dumper), io.TextIOWrapper/Buffered* run unmodified; only the raw device and `open` are simulated",
    "a case is admitted only if the in-memory round trip through json/yaml used directly (not pane.io) already reproduces the value (representability precondition); other cases are counted as skipped, not decided",
    "binary caller streams are not generated: the property speaks of text streams",
    "after an injected error no equality is claimed for the torn sink; only: no normal return with lost data, no leaked handle, caller streams left open",
    "user handlers (custom=) are pure functions",
]


def tier_config(tier):
    if tier == 'quick':
        return {'classes': [('faultfree', 4000), ('faulty', 6000), ('realdisk', 300)], 'chunk': 50, 'selftest_n': 300,
                'sample': 1, 'hang_s': 600}
    return {'classes': [('faultfree', 6000), ('faulty', 9000), ('realdisk', 600), ('long', 900)], 'chunk': 50, 'selftest_n': 600,
            'sample': 1, 'hang_s': 900, 'repeat': True, 'budget_s': 600}


def coverage(agg, conf):
    c = agg['counters']
    fired = {k.split(':', 1)[1]: v for (k, v) in c.items() if k.startswith('fault_fired:')}
    cov = {
        'evaluations': agg['evaluations'],
        'distinct_nontrivial': len(agg['nontrivial_digests']),
        'distinct_digests': len(agg['digests']),
        'rule': describe_counters()['rule'],
        'samples': agg['samples'][:3],
        'states': len(agg['states']),
        'states_measure': 'distinct (per-sink model state and document count, open-handle count, last fault kind) tuples after an operation',
        'faults_fired': fired,
        'reach_probes': {k: v for (k, v) in sorted(c.items()) if not k.startswith('fault_fired:')},
        'components': {
            'real': ['pane (from /repo working tree)', 'json', 'PyYAML + libyaml', 'io.TextIOWrapper', 'io.BufferedWriter/Reader/Random', 'io.StringIO',
                     'builtin open + real files (realdisk class only, fault-free)'],
            'stub': ['raw device (SimRaw)', 'open() for path arguments (sim_open, injected as pane.io.open)', 'locale default encoding (hostile)'],
        },
    }
    cov.update(agg.get('extra', {}))
    return cov


# ---------------------------------------------------------------------------------------------
# minimisation

DEFAULT_KNOBS = {'buffer_size': 8192, 'write_through': False, 'line_buffering': False, 'read_chunk': 1 << 20,
                 'short_len': 1, 'default_encoding': 'ascii', 'wrapper_encoding': 'utf-8', 'wrapper_newline': None}


def shrink_candidates(plan, res):
    from .shrink import chunks_to_drop, clone, without
    v = res.get('violation')
    ops = plan['ops']
    # 1. nothing after the violating operation matters
    if v and v['op_index'] + 1 < len(ops):
        c = clone(plan)
        c['ops'] = ops[:v['op_index'] + 1]
        yield c
    # 2. ddmin over operations
    for drop in chunks_to_drop(len(ops)):
        c = clone(plan)
        c['ops'] = without(ops, drop)
        yield c
    # 3. faults one by one; then earlier firing index; not sticky
    for i, op in enumerate(ops):
        fl = op.get('faults') or []
        for j in range(len(fl)):
            c = clone(plan)
            c['ops'][i]['faults'] = without(fl, {j})
            yield c
        for j, f in enumerate(fl):
            if f.get('sticky'):
                c = clone(plan)
                c['ops'][i]['faults'][j]['sticky'] = False
                yield c
            for k in (1, f['k'] // 2, f['k'] - 1):
                if 1 <= k < f['k']:
                    c = clone(plan)
                    c['ops'][i]['faults'][j]['k'] = k
                    yield c
    # 4. simpler formatting options / API route
    for i, op in enumerate(ops):
        if op.get('opts'):
            c = clone(plan)
            c['ops'][i]['opts'] = {}
            yield c
            for key in list(op['opts']):
                c = clone(plan)
                del c['ops'][i]['opts'][key]
                yield c
        if op.get('via') == 'method':
            c = clone(plan)
            c['ops'][i]['via'] = 'func'
            yield c
        if op.get('pathkind') not in (None, 'str'):
            c = clone(plan)
            c['ops'][i]['pathkind'] = 'str'
            yield c
        if op.get('append'):
            c = clone(plan)
            c['ops'][i]['append'] = False
            yield c
        if op.get('obstruct'):
            c = clone(plan)
            del c['ops'][i]['obstruct']
            yield c
        if op.get('ctext'):
            c = clone(plan)
            del c['ops'][i]['ctext']
            yield c
            if op['ctext'].get('after'):
                c = clone(plan)
                c['ops'][i]['ctext']['after'] = False
                yield c
    # 5. unused values / definitions
    used = {op['val'] for op in ops if 'val' in op}
    if len(used) < len(plan['values']):
        keep = sorted(used)
        remap = {old: new for (new, old) in enumerate(keep)}
        c = clone(plan)
        c['values'] = [plan['values'][i] for i in keep]
        for op in c['ops']:
            if 'val' in op:
                op['val'] = remap[op['val']]
        yield c
    for i in range(len(plan['defs'])):
        c = clone(plan)
        c['defs'] = without(plan['defs'], {i})
        yield c
    # 6. simpler values: replace by a scalar
    for i, val in enumerate(plan['values']):
        for (t_, d_) in ((['s', 'int'], 1), (['s', 'str'], 'a'), (['s', 'str'], 'é'), (['list', ['s', 'int']], [1])):
            if val['t'] != t_ or val['data'] != d_:
                c = clone(plan)
                c['values'][i] = {'t': t_, 'data': d_, 'custom': None}
                yield c
        if val.get('custom') is not None:
            c = clone(plan)
            c['values'][i]['custom'] = None
            yield c
    # 7. default knobs
    for k, dv in DEFAULT_KNOBS.items():
        if plan['knobs'].get(k) != dv:
            c = clone(plan)
            c['knobs'][k] = dv
            yield c


def describe_counters():
    return {
        'rule': ("a run = seeded plan (knobs, class/enum definitions, typed values, <=12 write/read/read_all "
                 "operations over 2 simulated paths, 3 caller streams and a returned-string slot, with per-operation "
                 "fault plans); distinct = distinct run digest (sha256 of the run's trace); non-trivial = the run fired "
                 "at least one injected fault inside an operation or performed >= 2 operations on one sink"),
    }


def execute_isolated(plan, want_trace=False):
    from .kernel import run_isolated
    return run_isolated(execute, plan, want_trace)
