"""
Sensitivity self-test: break the property on purpose in a scratch worktree of /repo (outside
/repo and /verif, removed immediately afterwards) and require the quick tier to report it.

  python sim/selftest.py [--prop C10|C19] [--only substring] [--suite] [--tier quick]
"""
from __future__ import annotations

import argparse
import glob
import json
import os
import shutil
import subprocess
import sys
import tempfile
import time

HERE = os.path.dirname(os.path.abspath(__file__))
VERIF = os.path.dirname(HERE)
REPO = '/repo'


def scratch_base():
    return os.environ.get('VERIF_SCRATCH') or ('/dev/shm' if os.path.isdir('/dev/shm') else tempfile.gettempdir())


def run_mutant(diff, tier='quick', suite=False, seed='0', extra_env=None):
    name = os.path.basename(diff)[:-5]
    prop = name[:3].upper()
    base = scratch_base()
    wt = os.path.join(base, f'pane_mut_{name}_{os.getpid()}')
    out = os.path.join(base, f'pane_mut_out_{name}_{os.getpid()}')
    res = {'mutant': name, 'property': prop}
    subprocess.run(['git', '-C', REPO, 'worktree', 'add', '-f', '--detach', wt, 'HEAD', '-q'], check=True,
                   capture_output=True)
    try:
        ap = subprocess.run(['git', '-C', wt, 'apply', diff], capture_output=True, text=True)
        if ap.returncode != 0:
            res['error'] = 'patch does not apply: ' + ap.stderr[-300:]
            return res
        if suite:
            p = subprocess.run(['/venv/bin/python', '-B', '-m', 'pytest', '-q', '-p', 'no:cacheprovider', '--timeout=900',
                                '--continue-on-collection-errors'], cwd=wt, capture_output=True, text=True,
                               env=dict(os.environ, PYTHONPATH=wt))
            tail = [ln for ln in p.stdout.strip().splitlines() if 'passed' in ln or 'failed' in ln]
            res['suite'] = tail[-1] if tail else p.stdout[-200:]
        os.makedirs(out, exist_ok=True)
        env = dict(os.environ, PANE_REPO=wt, VERIF_EVIDENCE_DIR=out, VERIF_REPLAY_DIR=out, VERIF_SEED=seed)
        if extra_env:
            env.update(extra_env)
        t0 = time.time()
        p = subprocess.run([os.path.join(VERIF, 'check'), prop, '--tier', tier, '--selftest-n', '0'], capture_output=True,
                           text=True, env=env, timeout=3600)
        res['exit'] = p.returncode
        res['wall_s'] = round(time.time() - t0, 1)
        res['violations'] = [ln for ln in p.stdout.splitlines() if ln.startswith('violation')][:4]
        res['harness'] = [ln for ln in p.stdout.splitlines() if ln.startswith('HARNESS')][:2]
        res['summary'] = p.stdout.strip().splitlines()[-1] if p.stdout.strip() else p.stderr[-300:]
        res['caught'] = p.returncode == 1 and 'VIOLATION property=' in p.stdout
        return res
    finally:
        subprocess.run(['git', '-C', REPO, 'worktree', 'remove', '--force', wt], capture_output=True)
        shutil.rmtree(wt, ignore_errors=True)
        shutil.rmtree(out, ignore_errors=True)
        subprocess.run(['git', '-C', REPO, 'worktree', 'prune'], capture_output=True)


def main():
    ap = argparse.ArgumentParser()
    ap.add_argument('--prop', default=None)
    ap.add_argument('--only', default=None)
    ap.add_argument('--suite', action='store_true')
    ap.add_argument('--tier', default='quick')
    ap.add_argument('--dir', default=os.path.join(HERE, 'mutants'))
    ap.add_argument('--expect-clean', action='store_true',
                    help='the diffs are correct alternative implementations: the check must exit 0 on each (default dir: mutants_invalid)')
    a = ap.parse_args()
    if a.expect_clean and a.dir == os.path.join(HERE, 'mutants'):
        a.dir = os.path.join(HERE, 'mutants_invalid')
    diffs = sorted(glob.glob(os.path.join(a.dir, '*.diff')))
    results = []
    for d in diffs:
        n = os.path.basename(d)
        if a.prop and not n.upper().startswith(a.prop.upper()):
            continue
        if a.only and a.only not in n:
            continue
        r = run_mutant(d, a.tier, a.suite)
        results.append(r)
        print(json.dumps(r), flush=True)
    if a.expect_clean:
        alarmed = [r['mutant'] for r in results if r.get('exit') != 0]
        print(f"must-not-alarm: {len(results) - len(alarmed)}/{len(results)} correct alternatives accepted; alarms on: {alarmed}")
        return 0 if not alarmed else 1
    missed = [r['mutant'] for r in results if not r.get('caught')]
    print(f"sensitivity: {len(results) - len(missed)}/{len(results)} mutants reported; missed: {missed}")
    return 0 if not missed else 1


if __name__ == '__main__':
    sys.exit(main())
