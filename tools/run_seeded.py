#!/venv/bin/python
"""
Run the quick tier against every change kept under seeded/ (and optionally sim/mutants), at several VERIF_SEED
values, and tabulate which are reported.  Each change is applied to a scratch worktree of /repo under /dev/shm
(removed afterwards); /repo itself is never touched.

  tools/run_seeded.py [--seeds 1,2,3] [--only substring] [--mutants]
"""
import argparse
import glob
import json
import os
import shutil
import sys

HERE = os.path.dirname(os.path.abspath(__file__))
VERIF = os.path.dirname(HERE)
sys.path.insert(0, os.path.join(VERIF, 'sim'))
import selftest  # noqa: E402


def main():
    ap = argparse.ArgumentParser()
    ap.add_argument('--seeds', default='1,2')
    ap.add_argument('--only', default=None)
    ap.add_argument('--mutants', action='store_true')
    a = ap.parse_args()
    seeds = [s for s in a.seeds.split(',') if s]
    cases = []
    for d in sorted(glob.glob(os.path.join(VERIF, 'seeded', '*', 'patch.diff'))):
        sid = os.path.basename(os.path.dirname(d))
        if sid.startswith('benign') or sid.endswith('_out_of_scope'):
            continue        # correct rewrites (sim/selftest.py --expect-clean) / changes judged outside the property
        prop = 'c10' if '_c10_' in sid else 'c19'
        cases.append((sid, prop, d))
    if a.mutants:
        for d in sorted(glob.glob(os.path.join(VERIF, 'sim', 'mutants', '*.diff'))):
            n = os.path.basename(d)[:-5]
            cases.append((n, n[:3], d))
    table = {}
    for (sid, prop, d) in cases:
        if a.only and a.only not in sid:
            continue
        for seed in seeds:
            tmp = os.path.join(selftest.scratch_base(), f'{prop}_{sid}.diff')
            shutil.copy(d, tmp)
            try:
                r = selftest.run_mutant(tmp, seed=seed)
            finally:
                os.remove(tmp)
            runs = 0
            for ln in r.get('violations', []):
                try:
                    runs += int(ln.split(' in ')[1].split(' runs')[0])
                except Exception:
                    pass
            table.setdefault(sid, {})[seed] = {'caught': bool(r.get('caught')), 'exit': r.get('exit'), 'violating_runs_listed': runs,
                                                'wall_s': r.get('wall_s')}
            print(json.dumps({'id': sid, 'seed': seed, **table[sid][seed], 'first': (r.get('violations') or [''])[0][:140]}), flush=True)
    missed = {sid: [s for (s, v) in row.items() if not v['caught']] for (sid, row) in table.items()}
    missed = {k: v for (k, v) in missed.items() if v}
    print(json.dumps({'cases': len(table), 'seeds': seeds, 'missed': missed}, indent=1))
    return 0 if not missed else 1


if __name__ == '__main__':
    sys.exit(main())
