#!/bin/bash
# verify_seeded.sh <agent worktree> <seeded id>   -- confirm a seeded change independently, store it under /verif/seeded/<id>
set -u
SRC="$1"; ID="$2"
WT=/dev/shm/seed_verify_$$
DEST=/verif/seeded/$ID
mkdir -p "$DEST"
cp "$SRC/patch.diff" "$SRC/demo.py" "$DEST/" 2>/dev/null
[ -f "$SRC/meta.json" ] && cp "$SRC/meta.json" "$DEST/meta.agent.json"
git -C /repo worktree add -f --detach "$WT" HEAD -q || exit 2
cd "$WT"
echo "== demo on unmodified tree"; PYTHONPATH="$WT" timeout 600 /venv/bin/python -B "$DEST/demo.py" >/dev/null 2>&1; echo "demo_without_change_exit=$?"
git apply "$DEST/patch.diff" || { echo "PATCH DOES NOT APPLY"; cd /; git -C /repo worktree remove --force "$WT"; exit 2; }
echo "== suite with change"; PYTHONPATH="$WT" timeout 900 /venv/bin/python -B -m pytest -q -p no:cacheprovider --timeout=900 2>&1 | tail -1
echo "== demo with change"; PYTHONPATH="$WT" timeout 600 /venv/bin/python -B "$DEST/demo.py" 2>&1 | tail -3; echo "demo_with_change_exit=${PIPESTATUS[0]}"
cd /; git -C /repo worktree remove --force "$WT"; git -C /repo worktree prune
